#!/bin/bash
# usage: tools/confirm_generic.sh <worktree> <seeded-dir>...
# Generic confirmation using meta.json's demo_cmd (run at the worktree root, after `cd` to the seeded
# dir is NOT assumed: demo.rs is copied to the worktree root first so that `cp demo.rs ...` works).
set -u
WT="$1"; shift
for D in "$@"; do
  echo "== $(basename $D)"
  OUT="$D/confirmed.txt"; : > "$OUT"
  DEMO=$(jq -r '.demo_cmd' "$D/meta.json"); TESTS=$(jq -r '.existing_tests_cmd' "$D/meta.json")
  cd "$WT" || exit 2
  git checkout -q -- . ; git clean -fdq
  cp "$D/demo.rs" ./demo.rs
  bash -c "$DEMO" > /tmp/confirm-g.log 2>&1; echo "demo_without_change_exit=$? ($(grep -E '^test result' /tmp/confirm-g.log | tail -1))" >> "$OUT"
  git checkout -q -- . ; git clean -fdq
  git apply "$D/patch.diff" || { echo "patch_applies=no" >> "$OUT"; cat "$OUT"; continue; }
  echo "patch_applies=yes" >> "$OUT"
  cp "$D/demo.rs" ./demo.rs
  bash -c "$DEMO" > /tmp/confirm-g.log 2>&1; echo "demo_with_change_exit=$? ($(grep -E '^test result' /tmp/confirm-g.log | tail -1))" >> "$OUT"
  git checkout -q -- . ; git clean -fdq; git apply "$D/patch.diff"
  if [ -n "${RUN_EXISTING:-}" ]; then
    bash -c "$TESTS" > /tmp/confirm-g.log 2>&1; echo "existing_tests_with_change_exit=$? ($(grep -E '^test result' /tmp/confirm-g.log | tr '\n' ' ' | cut -c1-300))" >> "$OUT"
  fi
  git checkout -q -- . ; git clean -fdq
  cat "$OUT"
done
