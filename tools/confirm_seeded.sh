#!/bin/bash
# usage: tools/confirm_seeded.sh <seeded-dir> <worktree> <crate> <features-or-none> <target-dir>
# Confirms in a scratch worktree: patch applies and compiles, the crate's existing tests pass with it,
# the demo fails with it and passes without it. Writes <seeded-dir>/confirmed.txt
set -u
D="$1"; WT="$2"; CRATE="$3"; FEAT="$4"; TD="$5"
NAME=$(jq -r '.demo_cmd' "$D/meta.json" | sed -n 's/.*--test \([a-zA-Z0-9_]*\).*/\1/p')
FLAGS=""; [ "$FEAT" != "none" ] && FLAGS="--features $FEAT"
RF=""; jq -r '.demo_cmd' "$D/meta.json" | grep -q radixdlt_radixdlt_scrypto_verif && RF="--cfg radixdlt_radixdlt_scrypto_verif"
cd "$WT" || exit 2
git checkout -q -- . ; git clean -fdq
export CARGO_TARGET_DIR="$TD"
TESTDIR=$(ls -d */ | grep -q "^$CRATE/" && echo "$CRATE/tests")
mkdir -p "$TESTDIR"; cp "$D/demo.rs" "$TESTDIR/$NAME.rs"
OUT="$D/confirmed.txt"; : > "$OUT"
RUSTFLAGS="$RF" cargo test -p "$CRATE" $FLAGS --offline --test "$NAME" >/tmp/confirm.log 2>&1; echo "demo_without_change_exit=$? ($(grep -E '^test result' /tmp/confirm.log | tail -1))" >> "$OUT"
git apply "$D/patch.diff" || { echo "patch_applies=no" >> "$OUT"; exit 1; }
echo "patch_applies=yes" >> "$OUT"
RUSTFLAGS="$RF" cargo test -p "$CRATE" $FLAGS --offline --test "$NAME" >/tmp/confirm.log 2>&1; echo "demo_with_change_exit=$? ($(grep -E '^test result' /tmp/confirm.log | tail -1))" >> "$OUT"
rm -f "$TESTDIR/$NAME.rs"
cargo test -p "$CRATE" $FLAGS --offline >/tmp/confirm.log 2>&1; echo "existing_tests_with_change_exit=$? ($(grep -E '^test result' /tmp/confirm.log | head -1))" >> "$OUT"
git checkout -q -- . ; git clean -fdq
cat "$OUT"
