#!/bin/bash
# usage: tools/confirm_sysdemo.sh <worktree> <target-dir> <seeded-dir>...
# Own confirmation of seeded changes whose demonstration is a test module for
# radix-engine-tests/tests/system (demo.rs): (1) demo passes on the unmodified tree,
# (2) demo fails with the change, (3) the existing tests (radix-engine unit tests, kernel_folder,
# system_folder without the demo, and blueprints_folder when RUN_BLUEPRINTS=1) pass with the change.
# Every build is forced (touch) because target dirs may have been shared between worktrees.
set -u
WT="$1"; export CARGO_TARGET_DIR="$2"; shift 2
export CARGO_NET_OFFLINE=true
for D in "$@"; do
  N=$(basename "$D"); S=$(echo "$N" | tr 'A-Z-' 'a-z_')
  OUT="$D/confirmed.txt"; : > "$OUT"
  echo "== $N"
  cd "$WT" || exit 2
  git checkout -q -- . ; git clean -fdq
  put_demo() { cp "$D/demo.rs" radix-engine-tests/tests/system/seeded_demo_$S.rs; echo "mod seeded_demo_$S;" >> radix-engine-tests/tests/system/mod.rs; }
  put_demo; touch radix-engine/src/lib.rs
  nice -n 10 cargo test -p radix-engine-tests --test system_folder --offline -- seeded_demo_$S > /tmp/confirm-$S.log 2>&1
  echo "demo_without_change: exit=$? $(grep -E '^test result' /tmp/confirm-$S.log | tail -1)" >> "$OUT"
  git checkout -q -- . ; git clean -fdq
  if ! git apply "$D/patch.diff"; then echo "patch_applies=no" >> "$OUT"; cat "$OUT"; continue; fi
  echo "patch_applies=yes" >> "$OUT"
  git diff --name-only | xargs touch; touch radix-engine/src/lib.rs
  put_demo
  nice -n 10 cargo test -p radix-engine-tests --test system_folder --offline -- seeded_demo_$S > /tmp/confirm-$S.log 2>&1
  echo "demo_with_change: exit=$? $(grep -E '^test result' /tmp/confirm-$S.log | tail -1)" >> "$OUT"
  grep -E "panicked at|C[0-9][0-9] broken" /tmp/confirm-$S.log | head -2 | cut -c1-300 >> "$OUT"
  nice -n 10 cargo test -p radix-engine-tests --test system_folder --offline -- --skip seeded_demo > /tmp/confirm-$S.log 2>&1
  echo "existing system_folder with change: exit=$? $(grep -E '^test result' /tmp/confirm-$S.log | tail -1)" >> "$OUT"
  nice -n 10 cargo test -p radix-engine-tests --test kernel_folder --offline > /tmp/confirm-$S.log 2>&1
  echo "existing kernel_folder with change: exit=$? $(grep -E '^test result' /tmp/confirm-$S.log | tail -1)" >> "$OUT"
  nice -n 10 cargo test -p radix-engine --lib --offline > /tmp/confirm-$S.log 2>&1
  echo "existing radix-engine lib with change: exit=$? $(grep -E '^test result' /tmp/confirm-$S.log | tail -1)" >> "$OUT"
  if [ -n "${RUN_BLUEPRINTS:-}" ]; then
    nice -n 10 cargo test -p radix-engine-tests --test blueprints_folder --offline > /tmp/confirm-$S.log 2>&1
    echo "existing blueprints_folder with change: exit=$? $(grep -E '^test result' /tmp/confirm-$S.log | tail -1)" >> "$OUT"
  fi
  git checkout -q -- . ; git clean -fdq
  cat "$OUT"
done
