#!/bin/bash
# usage: tools/confirm_txdemo.sh <worktree> <target-dir> <seeded-dir>...
# Own confirmation of seeded changes whose demonstration is an integration test of the
# radix-transactions package (demo.rs -> radix-transactions/tests/seeded_demo_<name>.rs).
set -u
WT="$1"; export CARGO_TARGET_DIR="$2"; shift 2
export CARGO_NET_OFFLINE=true
cd "$WT" || exit 2
for D in "$@"; do
  N=$(basename "$D"); S=$(echo "$N" | tr 'A-Z-' 'a-z_')
  OUT="$D/confirmed.txt"; : > "$OUT"
  echo "== $N"
  git checkout -q -- . ; git clean -fdq
  cp "$D/demo.rs" radix-transactions/tests/seeded_demo_$S.rs; touch radix-transactions/src/lib.rs radix-common/src/lib.rs
  nice -n 5 cargo test -p radix-transactions --test seeded_demo_$S --offline > /tmp/confirmtx-$S.log 2>&1
  echo "demo_without_change: exit=$? $(grep -E '^test result' /tmp/confirmtx-$S.log | tail -1)" >> "$OUT"
  git checkout -q -- . ; git clean -fdq
  if ! git apply "$D/patch.diff"; then echo "patch_applies=no" >> "$OUT"; cat "$OUT"; continue; fi
  echo "patch_applies=yes" >> "$OUT"
  FILES=$(git diff --name-only); echo "$FILES" | xargs touch; touch radix-transactions/src/lib.rs radix-common/src/lib.rs
  cp "$D/demo.rs" radix-transactions/tests/seeded_demo_$S.rs
  nice -n 5 cargo test -p radix-transactions --test seeded_demo_$S --offline > /tmp/confirmtx-$S.log 2>&1
  echo "demo_with_change: exit=$? $(grep -E '^test result' /tmp/confirmtx-$S.log | tail -1)" >> "$OUT"
  grep -E "panicked at|C[0-9][0-9] broken" /tmp/confirmtx-$S.log | head -2 | cut -c1-300 >> "$OUT"
  rm -f radix-transactions/tests/seeded_demo_$S.rs
  nice -n 5 cargo test -p radix-transactions --offline > /tmp/confirmtx-$S.log 2>&1
  echo "existing radix-transactions tests with change: exit=$? $(grep -E '^test result' /tmp/confirmtx-$S.log | tr '\n' ' ' | cut -c1-400)" >> "$OUT"
  if echo "$FILES" | grep -q radix-common; then
    nice -n 5 cargo test -p radix-common --offline > /tmp/confirmtx-$S.log 2>&1
    echo "existing radix-common tests with change: exit=$? $(grep -E '^test result' /tmp/confirmtx-$S.log | tr '\n' ' ' | cut -c1-400)" >> "$OUT"
  fi
  cat "$OUT"
done
git checkout -q -- . ; git clean -fdq
