#!/usr/bin/env python3
"""Generates /verif/MANIFEST.json from the table below (single source of truth for claimed checks)."""
import json, os, sys
ROOT = os.path.dirname(os.path.dirname(os.path.abspath(__file__)))

BASELINE = ("cd /repo && cargo nextest run --workspace --no-fail-fast --tool-config-file pb:/w/lib/nextest.toml "
            "--profile pb --test-threads 8 --offline || cargo test --workspace --no-fail-fast --offline")

# id -> (category, technique, text, note, design_ref)
CLAIMED = {
 "C12": ("exploration", "deterministic simulation: seeded operation histories on the real Track vs a map-overlay model, with fault injection (failing I/O-accounting callback enumerated over every call position of sampled operations), replayable step traces + ddmin",
         "Seeded sampling of base contents and transaction operation sequences against the real Track; every return value and the final state updates are compared with an executable overlay model; for sampled operations the failing position of the I/O callback is enumerated completely and revert+finalize must leave exactly the force-written set.",
         "Trusts SpreadPrefixKeyMapper for key order (C16's subject); respects the documented preconditions of CommitableSubstateStore; sampling, not proof.", "5 C12"),
 "C13": ("exploration", "deterministic simulation: seeded interleavings of lock/unlock requests from simulated call frames vs a reader/writer-lock reference model",
         "Seeded request interleavings of 2..6 simulated frames against the real SubstateLocks, checked step by step against a reader/writer model plus cross-invariants after every step.",
         "No real threads exist for this table; the schedule is the order of requests. Sampling, not proof.", "5 C13"),
 "C14": ("exploration", "deterministic simulation: seeded commit/push/merge/discard histories on nested overlays vs a map model (speculative-fork fault F9: discard vs merge)",
         "Seeded histories of commits (sets, deletes of present and absent keys, resets) through one and two stacked overlays with merge/discard; after every step all reads and all listings from every cursor are compared with the base-with-commits-applied model.",
         "Base store is the in-memory store; sampling, not proof.", "5 C14"),
 "C15": ("exploration", "deterministic simulation: one seeded commit history applied to three store implementations with close/reopen faults, pairwise observational comparison",
         "Same seeded history into InMemory, RocksDB and RocksDB+Merkle stores with close/reopen at random points; gets, listings from every cursor and partition-key sets compared after every step.",
         "Merkle store only takes part with prefix-free (fixed-length) keys; RocksDB is real; sampling, not proof.", "5 C15"),
 "C17": ("exploration", "deterministic simulation: seeded commit histories and re-batching schedules of the same net history vs an independent from-scratch sparse-Merkle commitment",
         "Every root produced by put_at_next_version over seeded histories, and over random re-batchings/representations of the same net history in three tree stores, is compared with a from-scratch commitment that shares no code with the tree; listings compared with the model's value hashes; empty state must give the zero root.",
         "Reference commitment restates the hashing definitions with the blake2 crate; keys prefix-free per tier; sampling, not proof.", "5 C17"),
 "C18": ("exploration", "deterministic simulation: seeded histories (resets, entity deletion, re-creation) on pruned and unpruned tree stores in lock-step, reachability oracle over the raw node maps",
         "After every commit the pruned store must contain every node reachable from the current root (own tier-aware traversal) and list exactly the model; every part the unpruned store reports stale must be unreachable from that and every later root of the run.",
         "Traversal restates the tier-nesting convention; sampling, not proof.", "5 C18"),
 "C19": ("fault_enumeration", "deterministic simulation with crash injection: for each sampled commit the process stop is enumerated before every physical write (hook H3), crash image reopened and compared with pre/post models and an independent root commitment; child-process kill mode in the thorough tier",
         "For every sampled commit (random pre-state, 1..40 changes incl. resets, pruning on/off) the stop position is enumerated over all physical writes the commit issues; each crash image (byte copy of the live directory, or the directory left by a killed child process) is reopened: (version, root) must be the pre or the post pair, the substates exactly the pre or post model, the root must equal the from-scratch commitment of the substates held, the tree must be traversable, and the interrupted commit must be completable.",
         "A stop is a process stop between two RocksDB API writes (no torn sectors / lost OS buffers); positions enumerated completely only for the sampled commits; RocksDB is real.", "5 C19"),
}

LEDGER_NOTE = "Node loop, clients, consensus driver and clock are ours; engine, native blueprints, WASM VM, transaction preparation, in-memory store and protocol executor are real. Default simulator genesis. Sampling, not proof."
CLAIMED.update({
 "C02": ("fault_enumeration", "deterministic simulation with fault injection: for sampled transactions of a seeded ledger history the injected system error is enumerated over the transaction's costing calls (existing InjectCostingError seam); every commit-failure's state updates are decoded against the pre-state",
         "For sampled user transactions over reachable states the injected-error position is enumerated over the costing calls (all in the thorough tier; head, tail and a stride in the quick tier); each commit-failure may change only fee-locking XRD vault balances, the validator rewards field and vault, and the transaction tracker, may emit only fee events, and its fee flow must sum to zero; rejects/aborts carry no commit; naturally failing, cost-limit-cut and injected transactions in the history are checked the same way and kept, with store scanners (ownership, repository checkers) run afterwards.",
         LEDGER_NOTE + " Positions enumerated only for sampled transactions.", "5 C02"),
 "C03": ("exploration", "deterministic simulation with fault injection: seeded ledger histories (mint/burn/transfer/recall/pools/staking/epochs, injected failures, restarts); per-commit conservation monitor decoding state updates against the pre-state",
         "After every commit (success or failure) of seeded histories: per resource, sum of vault balance changes == minted - burned by events == change of recorded supply where tracked; per non-fungible id, vault membership change == minted - burned.",
         LEDGER_NOTE, "5 C03"),
 "C04": ("exploration", "deterministic simulation with fault injection: seeded ledger histories incl. epoch changes, failed commits and restarts; full-store scans (own + repository checkers and event replay) as history invariants",
         "Every N commits and at run end: own scan (supply == sum of vaults, no negative balance, NF amount == |ids|, no id in two vaults) plus the repository's resource checker, event checker and reconciler replaying all events since genesis (in runs without freezable resources: the repository checker has a todo!() for the FreezeStatus field).",
         LEDGER_NOTE, "5 C04"),
 "C05": ("exploration", "deterministic simulation with fault injection: seeded ledger histories with failures at arbitrary depth; repository kernel/system database checkers plus an own ownership pass as history invariants",
         "Every N commits and at run end: KernelDatabaseChecker + SystemDatabaseChecker (role assignment, royalty, resource application checkers) over the whole store and an own pass: every stored internal node owned exactly once, no global node owned, stored values reference only global nodes.",
         LEDGER_NOTE, "5 C05"),
 "C11": ("exploration", "deterministic simulation with fault injection: every engine execution of seeded histories (with injected costing errors, cost limits, aborts) runs under a panic guard; panic or native trap is the violation",
         "Every execution of the seeded workloads runs under catch_unwind with a recording panic hook; no panic and no NativeRuntimeError::Trap may occur.",
         LEDGER_NOTE + " The argument-payload quantifier is only covered as far as the workload's generated calls reach (boundary amounts, wrong actors, unbound names).", "5 C11"),
})

CLAIMED.update({
 "C01": ("exploration", "deterministic simulation: every transaction of a seeded history re-executed under variant configurations (seeded hash universes via hook H1, diagnostic flags, cold code cache, other store implementation, fresh process with kernel trace) and on real threads serialised by a seeded scheduler at code-cache (hook H2) and database-read scheduling points; byte comparison with the reference execution",
         "For every transaction of seeded histories (with injected faults) the reference execution is compared byte for byte (outcome, state updates, events, logs, fee summary/source/destination, summary, nullifications) with re-executions in other hash universes, under diagnostic flag combinations, with a cold VM, over an overlay store, on 2-4 interleaved threads sharing a cold code cache (schedules recorded and replayable), and in a fresh process with kernel tracing enabled.",
         LEDGER_NOTE + " Threads are serialised between scheduling points; races inside wasmi/moka between truly parallel instructions are not claimed.", "5 C01"),
 "C06": ("exploration", "deterministic simulation with fault injection: seeded histories with a dedicated fee payer, contingent/non-contingent lock patterns, tips over both specifier ranges and randomised costing parameters; fee probes sweep the lock amount through the exact need; oracle in exact integer arithmetic",
         "For every commit: paid == execution+finalization+tip+storage+royalties == proposer+validator set+burn+royalties, cost == units x price, shares within 2 attos of the documented split, rewards vault delta, burn event, dedicated payer vault delta == reported payment, contingent-only vault untouched on failure, units within limits; lock amounts of exactly T and T -/+ a few attos must give a consistent commit or a reject, never a panic of the executor's fee assertions.",
         LEDGER_NOTE + " The tip rounding is not fixed by the property: up to one atto per cost unit is tolerated.", "5 C06"),
})

CLAIMED.update({
 "C07": ("exploration", "deterministic simulation: real signed V1/V2 transactions (with subintents) duplicated and delayed by a simulated mempool across long simulated epoch histories driven by real round-change transactions, node restarts; oracle = set of committed intents; plus the real tracker ring driven alone through ring wraps against a map model",
         "Seeded submission histories with duplicates/delays across hundreds to thousands of real epoch changes (thorough: beyond the 19100-epoch ring wrap) and restarts: a committed intent inside its window must be rejected, outside the window an epoch rejection, a fresh intent must not be rejected for these reasons, no hash nullified twice, subintents of failed parents stay usable; the real partition_for_expiry_epoch/advance are additionally driven through tens of thousands of epochs checking that no live record is discarded or looked up in the wrong partition.",
         LEDGER_NOTE + " The ring-only layer restates the executor's advance condition.", "5 C07"),
})

PROG_NOTE = LEDGER_NOTE + " Three-valued predictions: where the documented semantics are silent (zero-amount proofs, consuming a bucket that backs a proof, duplicate ids) no verdict is asserted."
CLAIMED.update({
 "C09": ("exploration", "deterministic simulation with fault injection: generated raw worktop/bucket/proof instruction programs (incl. invalid lifecycles, boundary amounts, injected costing errors) executed on the real engine and compared with a symbolic interpreter; vault changes compared after success",
         "Generated programs over the worktop/bucket/proof instruction set with boundary amounts: success iff every take is satisfiable, every assertion true, nothing left, nothing used after consumption; on success the account vault balances and id sets equal the symbolic interpreter's.",
         PROG_NOTE, "5 C09"),
 "C10": ("exploration", "deterministic simulation: generated interleavings of proof creation / clone / pop / push / drop and withdrawals / burns on fungible and non-fungible account vaults and buckets, max-of-locks reference model, follow-up transaction after faults and failures",
         "Withdraw / burn of y from a vault succeeds iff y <= balance - max(live locks) and y respects divisibility; overlapping proofs lock the max; proofs beyond the balance fail; after every program (successful, failed or fault-injected) a follow-up transaction withdrawing the full balance must succeed and the stored non-fungible vault amount equals its ids.",
         PROG_NOTE, "5 C10"),
 "C36": ("exploration", "deterministic simulation: the generated programs (half of them with deliberately invalid bucket/proof lifecycles) are passed through the static manifest interpreter and executed; static verdict compared with an independent lifecycle tracker and with run-time id-lookup errors",
         "A manifest whose bucket/proof id lifecycle is invalid (unknown, consumed twice, consumed while locked by a proof, dangling at the end) must be rejected by StaticManifestInterpreter(all rules); an accepted manifest never fails at run time with BucketNotFound / ProofNotFound.",
         PROG_NOTE + " Only V1 manifests; address reservations, named addresses, blobs and child intents are not generated.", "5 C36"),
 "C44": ("exploration", "deterministic simulation with clock faults: a simulated consensus driver issues real next_round transactions with skewed, repeated, backward- and far-forward-jumping timestamps and regressing / inconsistent rounds on nodes with randomised genesis consensus configuration; clock model checked after every transaction",
         "Non-monotone timestamps, non-increasing rounds and inconsistent gap histories must fail and leave (epoch, round, ms, minute) unchanged; successes record exactly the requested round/timestamp or change the epoch by +1 with round 0; the minute clock never decreases and equals ms/60000; get_current_time / compare_current_time at both precisions equal the model.",
         LEDGER_NOTE.replace("Default simulator genesis.", "Randomised genesis consensus configuration.") + " Instants before 1970 or beyond the last representable minute are not compared (saturation by design).", "5 C44"),
})

CLAIMED.update({
 "C51": ("exploration", "deterministic simulation with fault injection: seeded histories in which parties lock metadata entries and owner roles and then every party keeps attacking them; model-free history invariant over every commit's state updates (a stored Locked substate or a None-updater owner role may never change)",
         "For every commit of seeded histories (with injected faults) each updated substate is compared with its pre-state: substates stored as Locked (fields, key-value entries incl. metadata and non-fungible tombstones) and owner roles with updater None must be rewritten byte-identically or not at all.",
         LEDGER_NOTE + " Component royalty settings and WASM key-value stores are not part of the workload; they are covered only as far as the generic Locked-substate monitor sees them.", "5 C51"),
})

CLAIMED.update({
 "C43": ("exploration", "deterministic simulation with fault injection: seeded histories of explicit / RUID mints, burns, re-mints of live and burned ids, wrong-typed ids and data updates by owner and strangers, with restarts and injected system errors; set-of-ever-minted-ids model and tombstone history invariant",
         "A mint of an id ever minted before (live or burned) must fail, a fresh well-typed mint by the owner must succeed, every stored id has the resource's id type, every burned id's data entry stays a locked empty tombstone in every later version, data updates succeed only for the declared-mutable field by the updater and change exactly that field.",
         LEDGER_NOTE, "5 C43"),
})

TRANSPORT_NOTE = "Sampled, not exhaustive: seeds x payload shapes x corruption kinds. Only notarized V1/V2 user transactions travel; partial-transaction and ledger payloads are not generated. Nothing is executed. Blind corruption mostly dies at decoding; the tampering relay and signature moves reach the validator."
CLAIMED.update({
 "C32": ("exploration", "deterministic simulation with fault injection on a simulated transport: valid signed V1/V2 payloads are delivered clean, duplicated, bit-flipped, truncated, extended, spliced or changed by a tampering relay (one field, re-encoded, not re-signed); history oracle: hash -> content maps stay functions, re-encode equals arrived bytes, tampered part changes its own and every enclosing hash",
         "Over every payload the node managed to prepare in a run: intent hash, signed-intent hash and notarized hash each map to one content; a prepared payload re-encodes to the arrived bytes (no trailing / non-canonical form accepted); a single-field change inside the intent / a subintent / the signatures / the notary signature changes exactly the hashes that enclose it.",
         TRANSPORT_NOTE, "5 C32"),
 "C33": ("exploration", "deterministic simulation with fault injection on a simulated transport: the simulator records which key signed which intent; corrupted, tampered, signature-swapped and duplicated-signer payloads are validated by the real TransactionValidator; oracle: accepted => same intent hash and signer badge sets as the original that was actually signed",
         "Every payload accepted by the validator yields, per intent, exactly the signer badges of the keys that signed that intent (+ notary iff declared signatory); a payload changed in transit is rejected or carries the original's intent hash and signer sets; clean payloads are always accepted; neither prepare nor validate panics on corrupted bytes.",
         TRANSPORT_NOTE, "5 C33"),
})

CLAIMED.update({
 "C41": ("exploration", "deterministic simulation with fault injection: seeded histories of contribute / redeem / k-fold contribute-then-redeem / protected deposit / protected withdraw on one-, two- and multi-resource pools over resources of seeded divisibility, with injected system errors and restarts; exact integer oracle on balances read from the store before and after every transaction",
         "Redemptions pay at most the pro-rata share per reserve and burn exactly the units handed in; reserve change == -(account change) per resource (nothing lost, change returned); k contributions followed at once by redeeming the minted units never leave the actor with more of a pool resource (dried-out pools exempt, as documented in the blueprint); multi-resource contributions follow the reserve ratio within one unit of divisibility; failed or fault-injected transactions leave reserves and unit supply unchanged. Two recorded known findings (two- and multi-resource pool, repeated contributions) are stepped over and reported as KNOWN-FINDING.",
         LEDGER_NOTE + " Pool manager rule allow_all; only the latest pool logic (v1.1).", "5 C41"),
})

CLAIMED.update({
 "C42": ("exploration", "deterministic simulation with fault injection: node bootstrapped from a seeded genesis (validators, set size, emission, reliability threshold, unstake delay, rounds per epoch); seeded histories of validator creation / registration / staking / unstaking / claiming / stake-then-unstake / fee changes / owner stake locking with injected system errors and restarts, interleaved with a simulated consensus driver (leaders, missed proposals, epoch changes); exact integer oracle on store reads and epoch-change events",
         "Stake units minted are proportional (never more than x*S/T, at most x*1e-18+2 attos less); an unstake records a claim of at most the proportional share and a claim pays exactly what was recorded; staking and unstaking at once never records more than was staked; per epoch change the XRD minted <= configured emission, rewards applied <= reward vault and leave it by exactly that amount, stake vaults grow by exactly emission + rewards; the next validator set has <= max_validators members, all registered with positive stake equal to their stake vault, in descending order, none excluded from a strictly higher 100k-XRD sort bucket, and not smaller than it could be.",
         LEDGER_NOTE.replace("Default simulator genesis.", "Seeded genesis per run.") + " Active-set selection is checked at the granularity of the engine's own 100k-XRD sort key.", "5 C42"),
})

CLAIMED.update({
 "C39": ("exploration", "deterministic simulation with fault injection: seeded histories in which the account owner reconfigures default rule / preferences / authorized depositors / vault existence while a depositor issues guarded single and batch deposits (refund and abort variants) with mixed batches and named / proven / unproven / unlisted badges, with injected system errors and restarts; configuration model as oracle, balances of receiver, depositor and a bystander read from the store",
         "Every guarded deposit ends exactly as the model predicts: all deposited iff all buckets allowed or the named badge is listed and proven; refused + listed badge not proven fails; otherwise refund variants return everything and abort variants fail; never a partial deposit; only the receiver's vaults of the batch resources change; one RejectedDepositEvent per refused bucket on refunds.",
         LEDGER_NOTE + " Latest account logic only (an unlisted named badge means refund / abort).", "5 C39"),
})

CLAIMED.update({
 "C40": ("exploration", "deterministic simulation with clock faults and fault injection: primary / recovery / confirmation holders and an outsider issue all access-controller methods in seeded order with seeded proposals and current or stale badges, while the simulated consensus driver moves the proposer clock around recovery deadlines; a history model built from the successful calls justifies every change of the role rules and every loss of the controlled asset (safety monitor after every transaction)",
         "Role rules change only in a quick-confirm by a role other than the proposer passing exactly the recorded proposal, or in a timed confirmation of the recovery role's recorded timed proposal at or after its deadline minute, and then to exactly the proposed rules; the asset leaves only through a quick-confirmed badge withdraw attempt of the other side; create_proof never succeeds while the primary role is locked; no call succeeds with a badge that satisfies none of the method's roles; failed calls change nothing; the stored state tuple equals the history model after every success. One recorded known finding (timed_confirm_recovery is callable by anyone) is stepped over and reported as KNOWN-FINDING.",
         LEDGER_NOTE + " Latest access controller only; recovery-fee vault methods are not exercised.", "5 C40"),
})

CLAIMED.update({
 "C49": ("exploration", "deterministic simulation with configuration faults (F6): on sampled transactions of seeded histories (economy workload + long metadata keys / values + up to 90 transfers per manifest) one execution limit at a time is lowered; the smallest value under which the transaction still executes identically is located by bisection and the threshold is checked from both sides and by sampled values (monotone), against the receipt's own event counts / sizes and committed value sizes",
         "For 8 limit kinds (call depth, heap / track bytes, substate key / value size, invoke payload size, event size, event count): one below the located threshold the transaction fails with that limit's error, at and above it the result is identical (never a different success); event-count and event-size thresholds equal what the receipt shows for the execution phase; no committed substate value exceeds the value-size threshold; a limit error that reports the offending size must report one that exceeds the limit in force. Log and panic-message limits are not reachable without a logging blueprint and are not covered.",
         LEDGER_NOTE + " Thresholds are located per sampled transaction (2-3 limit kinds each), not for every transaction.", "5 C49"),
})

CLAIMED.update({
 "C08": ("exploration", "deterministic simulation with fault injection: seeded histories in which the owner keeps replacing the rule protecting a resource's mint (the role's own rule or the owner-role fallback) with generated rule trees, while three parties attempt the call after generated auth-zone programs (account proofs by amount / ids, bucket proofs, popped / kept / dropped proofs, dropped signature proofs, extra signers), with injected system errors and restarts; reference evaluator of the documented rule semantics over a model of the auth zone",
         "The protected call succeeds iff the rule in force is satisfied by what is in the caller's auth zone at that moment (require, amount-of = one proof of at least the amount, count-of, all-of, any-of, nested any-of / all-of, allow-all, deny-all, signature badges), and a refusal is reported as Unauthorized; the owner's own rule replacements are checked against the same evaluator.",
         LEDGER_NOTE + " Only method authorization of a native resource manager (role rule + owner fallback); function auth, the global-caller rule, nested component auth zones and explicit assert_access_rule are not generated.", "5 C08"),
})

CLAIMED.update({
 "C38": ("exploration", "deterministic simulation with fault injection: the generated worktop / bucket / proof programs of the programs world (boundary amounts, invalid lifecycles, fee locked on the faucet component or on the own account) over evolving account states are passed through StaticResourceMovementsVisitor and executed on the real engine; analyser output compared with the accounts' own withdraw / deposit events of the receipt",
         "For every accepted and successfully executed manifest: per account and resource the withdrawals equal the analyser's (exact) withdrawals and the deposits lie within the summed per-deposit bounds; a resource not mentioned by any deposit of an account without unspecified resources is not deposited there. Non-fungibles by count only.",
         PROG_NOTE + " Only V1 manifests over account withdraw / deposit methods, worktop instructions and assertions; no component calls returning unknown buckets other than the faucet's lock_fee, no V2 assertions, ids of non-fungibles are not compared.", "5 C38"),
})

PURE = "pure function of one input value: no schedule, clock, I/O, fault or history for a simulator to own (DESIGN section 6)"
NOT_APPLICABLE = {
 "C16": "key mapping is a pure bijection on keys; " + PURE,
 "C20": "SBOR round-trip/canonicity: " + PURE,
 "C21": "SBOR decode totality/depth: " + PURE,
 "C22": "typed codec vs schema: " + PURE,
 "C23": "schema comparison soundness: " + PURE,
 "C24": "decimal arithmetic: " + PURE,
 "C25": "rounding modes: " + PURE,
 "C26": "roots and powers: " + PURE,
 "C27": "decimal text forms: " + PURE,
 "C28": "address/id text forms: " + PURE,
 "C29": "calendar conversions: " + PURE,
 "C30": "decompile/compile identity: pure function of a manifest; " + PURE,
 "C31": "compiler totality: pure function of a string; " + PURE,
 "C34": "validation limits at exact boundaries: pure predicate on one transaction and one configuration; " + PURE,
 "C35": "subintent tree validation: pure predicate on one transaction; " + PURE,
 "C37": "resource assertion semantics: pure predicate on (constraint, balance); " + PURE,
 "C45": "WASM validation: pure function of a module; " + PURE,
 "C46": "instrumentation equivalence: pure function of a module and a call, VM single-threaded per instance; " + PURE,
 "C47": "host memory bounds: pure function of a call; " + PURE,
 "C48": "signature primitives: pure cryptographic functions; " + PURE,
}
# planned in DESIGN.md but not built (yet): not claimed, listed with that reason
PLANNED = ["C01","C02","C03","C04","C05","C06","C07","C08","C09","C10","C11","C32","C33","C36","C38","C39","C40","C41","C42","C43","C44","C49","C50","C51"]

def main():
    hooks_commits = [l.strip() for l in open(os.path.join(ROOT, "tools", "hook_commits.txt")) if l.strip() and not l.startswith("#")]
    checks = []
    for pid in sorted(CLAIMED):
        cat, tech, text, note, ref = CLAIMED[pid]
        checks.append({
            "property_id": pid,
            "quick_cmd": f"./check {pid} quick",
            "thorough_cmd": f"./check {pid} thorough",
            "evidence_file": f"/verif/evidence/{pid}.json",
            "replay_cmd_template": f"./check {pid} --replay {{path}}",
            "engine": "verif-sim",
            "level_claimed": {"category": cat, "text": text, "design_ref": "DESIGN.md section " + ref},
            "level_note": note,
            "technique": tech,
        })
    na = [{"property_id": k, "reason": v} for k, v in sorted(NOT_APPLICABLE.items())]
    for pid in PLANNED:
        if pid not in CLAIMED:
            na.append({"property_id": pid, "reason": "not claimed: a simulated check is designed (DESIGN.md section 5) but not built and validated yet, so nothing is asserted for it"})
    na.sort(key=lambda x: x["property_id"])
    manifest = {
        "version": 1,
        "setup_cmd": "./check build",
        "hooks": {
            "guard": "radixdlt_radixdlt_scrypto_verif",
            "enable": "rustc --cfg radixdlt_radixdlt_scrypto_verif, set for every crate by /verif/sim/.cargo/config.toml (build.rustflags); /repo's own builds never set it",
            "baseline_off_cmd": BASELINE,
            "source_commits": hooks_commits,
            "add_only": False,
        },
        "engines": [{
            "name": "verif-sim",
            "path": "/verif/sim",
            "serves_properties": sorted(CLAIMED),
            "kind_free_text": "deterministic simulator with fault injection (own PRNG streams from VERIF_SEED, explicit step traces as replay files, ddmin shrinker, fresh-process confirmation); worlds: store, track, lock-table, ledger; links the real crates of /repo by path and rebuilds them with the hook guard on",
        }],
        "checks": checks,
        "not_applicable": na,
        "notes": "Entry point ./check <ID> [quick|thorough] | ./check <ID> --replay <file> | ./check selftest. Exit 0 held / 1 violation (VIOLATION line) / 2 harness error. VERIF_SEED default 1. Known findings: /verif/known_findings.json.",
    }
    json.dump(manifest, open(os.path.join(ROOT, "MANIFEST.json"), "w"), indent=1)
    print("claimed", len(checks), "not_applicable", len(na))

if __name__ == "__main__":
    main()
