#!/bin/bash
# usage: tools/confirm_sysdemo3.sh build <worktree> <target-dir> <bins-dir> <seeded-dir>...
#        tools/confirm_sysdemo3.sh run   <worktree> <bins-dir> <seeded-dir>...
# Two-phase own confirmation (the machine is shared with other builds, so the long test runs are
# separated from the builds):
#  build: ONE clean-tree build holding all demo modules (every demo must pass there), then per change
#         one forced build of the test binaries (system_folder, kernel_folder, radix-engine unit tests);
#         its own demo is run at once (must fail) and the binaries are hard-linked into <bins-dir>/<name>/.
#  run:   the saved binaries of every change are run completely (system_folder without the demos,
#         kernel_folder, unit tests) from the package directory, as cargo would run them.
set -u
MODE="$1"; WT="$2"; shift 2
export CARGO_NET_OFFLINE=true
name_of() { basename "$1"; }; short_of() { basename "$1" | tr 'A-Z-' 'a-z_'; }
if [ "$MODE" = build ]; then
  export CARGO_TARGET_DIR="$1"; BINS="$2"; shift 2
  mkdir -p "$BINS"; cd "$WT" || exit 2
  put_demos() { local D S; for D in "$@"; do S=$(short_of "$D"); cp "$D/demo.rs" radix-engine-tests/tests/system/seeded_demo_$S.rs; echo "mod seeded_demo_$S;" >> radix-engine-tests/tests/system/mod.rs; done; }
  if ! grep -q "^test result: ok" "$BINS/clean.log" 2>/dev/null; then
    git checkout -q -- . ; git clean -fdq; put_demos "$@"; touch radix-engine/src/lib.rs
    cargo test -p radix-engine-tests --test system_folder --offline -- seeded_demo > "$BINS/clean.log" 2>&1
    echo "clean tree, all demos: exit=$? $(grep -E '^test result' "$BINS/clean.log" | tail -1)"
  fi
  for D in "$@"; do
    N=$(name_of "$D"); S=$(short_of "$D"); OUT="$D/confirmed.txt"; : > "$OUT"; echo "== $N"
    echo "demo_without_change (clean-tree build holding all demo modules): $(grep -E "seeded_demo_$S::.* \.\.\. " "$BINS/clean.log" | tr '\n' ';' | cut -c1-500)" >> "$OUT"
    git checkout -q -- . ; git clean -fdq
    if ! git apply "$D/patch.diff"; then echo "patch_applies=no" >> "$OUT"; cat "$OUT"; continue; fi
    echo "patch_applies=yes" >> "$OUT"
    git diff --name-only | xargs touch; touch radix-engine/src/lib.rs; put_demos "$@"
    cargo test --no-run --offline --message-format=json -p radix-engine -p radix-engine-tests --lib --test system_folder --test kernel_folder ${EXTRA_TESTS:-} 2>/dev/null | jq -r 'select(.executable != null and .profile.test == true) | "\(.target.name) \(.executable)"' > "$BINS/$N.bins"
    mkdir -p "$BINS/$N"
    while read -r T EXE; do ln -f "$EXE" "$BINS/$N/$T" 2>/dev/null || cp "$EXE" "$BINS/$N/$T"; done < "$BINS/$N.bins"
    ( cd radix-engine-tests && "$BINS/$N/system_folder" seeded_demo_$S > "$BINS/$N.demo.log" 2>&1 ); RC=$?
    echo "demo_with_change: exit=$RC $(grep -E '^test result' "$BINS/$N.demo.log" | tail -1)" >> "$OUT"
    grep -E "panicked at|C[0-9][0-9] broken" "$BINS/$N.demo.log" | head -2 | cut -c1-300 >> "$OUT"
    cat "$OUT"
  done
  git checkout -q -- . ; git clean -fdq
else
  BINS="$1"; shift 1
  for D in "$@"; do
    N=$(name_of "$D"); OUT="$D/confirmed.txt"; echo "== $N"
    ( cd "$WT/radix-engine-tests" && "$BINS/$N/system_folder" --skip seeded_demo > "$BINS/$N.system.log" 2>&1 ); RC=$?
    echo "existing system_folder with change (saved binary): exit=$RC $(grep -E '^test result' "$BINS/$N.system.log" | tail -1)" | tee -a "$OUT"
    ( cd "$WT/radix-engine-tests" && "$BINS/$N/kernel_folder" > "$BINS/$N.kernel.log" 2>&1 ); RC=$?
    echo "existing kernel_folder with change (saved binary): exit=$RC $(grep -E '^test result' "$BINS/$N.kernel.log" | tail -1)" | tee -a "$OUT"
    if [ -x "$BINS/$N/blueprints_folder" ]; then
      ( cd "$WT/radix-engine-tests" && "$BINS/$N/blueprints_folder" > "$BINS/$N.blueprints.log" 2>&1 ); RC=$?
      echo "existing blueprints_folder with change (saved binary): exit=$RC $(grep -E '^test result' "$BINS/$N.blueprints.log" | tail -1)" | tee -a "$OUT"
    fi
    ( cd "$WT/radix-engine" && "$BINS/$N/radix_engine" > "$BINS/$N.lib.log" 2>&1 ); RC=$?
    echo "existing radix-engine unit tests with change (saved binary): exit=$RC $(grep -E '^test result' "$BINS/$N.lib.log" | tail -1)" | tee -a "$OUT"
  done
fi
