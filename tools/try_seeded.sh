#!/bin/bash
# usage: tools/try_seeded.sh <seeded-dir> <ID> [tier]  — applies patch.diff to /repo, runs the check, reverts.
set -u
D="$1"; ID="$2"; TIER="${3:-quick}"
cd /repo || exit 2
if ! git diff --quiet; then echo "REPO DIRTY - abort"; exit 2; fi
if ! git apply "$D/patch.diff"; then echo "PATCH DOES NOT APPLY"; exit 2; fi
cd /verif
VERIF_NO_FRESH_PROCESS=1 ./check "$ID" "$TIER" > /tmp/try_seeded.out 2>&1
RC=$?
grep -E "^violation|^VIOLATION|^done|HARNESS|KNOWN" /tmp/try_seeded.out | cut -c1-700 | head -8
echo "exit=$RC"
git -C /repo checkout -- .
exit $RC
