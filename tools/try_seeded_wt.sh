#!/bin/bash
# usage: tools/try_seeded_wt.sh <worktree> <ID> <seeded-dir>...   (parallel-safe: never touches /repo)
# Builds a copy of the simulator against <worktree> (own target dir) and runs the quick check
# with each patch applied in turn; the worktree is left clean.
set -u
WT="$1"; ID="$2"; shift 2
TAG=$(basename "$WT")
SIM=/tmp/sim-$TAG; ROOT=/tmp/verifroot-$TAG
mkdir -p "$ROOT/evidence" "$ROOT/replays"; cp /verif/known_findings.json "$ROOT/" 2>/dev/null
rsync -a --delete --exclude target /verif/sim/ "$SIM/"
sed -i "s#/repo/#$WT/#g" "$SIM/Cargo.toml"
sed -i "s#target-dir = .*#target-dir = \"/tmp/simtarget-$TAG\"#" "$SIM/.cargo/config.toml"
for D in "$@"; do
  echo "== $(basename $D) [$ID]"
  ( cd "$WT" && git checkout -q -- . && git clean -fdq && git apply "$D/patch.diff" ) || { echo "PATCH FAILED"; continue; }
  ( cd "$SIM" && CARGO_NET_OFFLINE=true cargo build --release --offline 2>&1 | grep -E "^error" -A 8 | head -30 )
  VERIF_ROOT="$ROOT" VERIF_NO_FRESH_PROCESS=1 /tmp/simtarget-$TAG/release/verif-sim check "$ID" quick > /tmp/try-$TAG.out 2>&1
  echo "exit=$?"; grep -E "^violation|^VIOLATION|^done|HARNESS" /tmp/try-$TAG.out | cut -c1-600 | head -6
done
( cd "$WT" && git checkout -q -- . && git clean -fdq )
