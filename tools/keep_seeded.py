#!/usr/bin/env python3
"""keep_seeded.py <seeded-out-dir> <detected:true|false> <check id> <note...>: copies a confirmed seeded change into /verif/seeded/<name>/"""
import json, os, shutil, sys
src=sys.argv[1]; detected=sys.argv[2]=='true'; check=sys.argv[3]; note=' '.join(sys.argv[4:])
name=os.path.basename(src.rstrip('/'))
dst=os.path.join('/verif/seeded',name); os.makedirs(dst,exist_ok=True)
for f in ['patch.diff','demo.rs']:
    shutil.copy(os.path.join(src,f),os.path.join(dst,f))
meta=json.load(open(os.path.join(src,'meta.json')))
conf=open(os.path.join(src,'confirmed.txt')).read() if os.path.exists(os.path.join(src,'confirmed.txt')) else ''
meta['confirmed_by_me']={'how':'applied in a scratch worktree outside /repo: demo passes without the change, fails with it; existing tests of the crate pass with it','output':conf.strip().splitlines()}
meta['verif_check']={'check':check,'detected':detected,'how_run':'patch applied to the repository sources the simulator builds from, ./check %s quick, patch reverted'%check,'note':note}
json.dump(meta,open(os.path.join(dst,'meta.json'),'w'),indent=1)
print('kept',name)
