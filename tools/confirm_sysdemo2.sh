#!/bin/bash
# usage: tools/confirm_sysdemo2.sh <worktree> <target-dir> <seeded-dir>...
# Like confirm_sysdemo.sh but with ONE clean-tree build holding all demo modules (all demos must
# pass there), then one build per change (its own demo must fail; the complete system_folder
# without the demos, kernel_folder and the radix-engine unit tests must pass).
set -u
WT="$1"; export CARGO_TARGET_DIR="$2"; shift 2
export CARGO_NET_OFFLINE=true
cd "$WT" || exit 2
put_demos() {
  for D in "$@"; do
    N=$(basename "$D"); S=$(echo "$N" | tr 'A-Z-' 'a-z_')
    cp "$D/demo.rs" radix-engine-tests/tests/system/seeded_demo_$S.rs
    echo "mod seeded_demo_$S;" >> radix-engine-tests/tests/system/mod.rs
  done
}
git checkout -q -- . ; git clean -fdq
put_demos "$@"; touch radix-engine/src/lib.rs
nice -n 5 cargo test -p radix-engine-tests --test system_folder --offline -- seeded_demo > /tmp/confirm2-clean.log 2>&1
echo "clean tree, all demos: exit=$? $(grep -E '^test result' /tmp/confirm2-clean.log | tail -1)"
for D in "$@"; do
  N=$(basename "$D"); S=$(echo "$N" | tr 'A-Z-' 'a-z_')
  OUT="$D/confirmed.txt"; : > "$OUT"
  echo "== $N"
  echo "demo_without_change (clean tree build holding all demo modules): $(grep -E "seeded_demo_$S::.* \.\.\. " /tmp/confirm2-clean.log | tr '\n' ';' | cut -c1-400)" >> "$OUT"
  git checkout -q -- . ; git clean -fdq
  if ! git apply "$D/patch.diff"; then echo "patch_applies=no" >> "$OUT"; cat "$OUT"; continue; fi
  echo "patch_applies=yes" >> "$OUT"
  git diff --name-only | xargs touch; touch radix-engine/src/lib.rs
  put_demos "$@"
  nice -n 5 cargo test -p radix-engine-tests --test system_folder --offline -- seeded_demo_$S > /tmp/confirm2-$S.log 2>&1
  echo "demo_with_change: exit=$? $(grep -E '^test result' /tmp/confirm2-$S.log | tail -1)" >> "$OUT"
  grep -E "panicked at|C[0-9][0-9] broken" /tmp/confirm2-$S.log | head -2 | cut -c1-300 >> "$OUT"
  nice -n 5 cargo test -p radix-engine-tests --test system_folder --offline -- --skip seeded_demo > /tmp/confirm2-$S.log 2>&1
  echo "existing system_folder with change: exit=$? $(grep -E '^test result' /tmp/confirm2-$S.log | tail -1)" >> "$OUT"
  nice -n 5 cargo test -p radix-engine-tests --test kernel_folder --offline > /tmp/confirm2-$S.log 2>&1
  echo "existing kernel_folder with change: exit=$? $(grep -E '^test result' /tmp/confirm2-$S.log | tail -1)" >> "$OUT"
  nice -n 5 cargo test -p radix-engine --lib --offline > /tmp/confirm2-$S.log 2>&1
  echo "existing radix-engine lib with change: exit=$? $(grep -E '^test result' /tmp/confirm2-$S.log | tail -1)" >> "$OUT"
  cat "$OUT"
done
git checkout -q -- . ; git clean -fdq
