//! Lock-table world (C13): `SubstateLocks` against a reader/writer-lock model under
//! interleaved requests of simulated call frames.

use crate::simkit::*;
use radix_common::prelude::*;
use radix_engine::kernel::substate_locks::SubstateLocks;
use serde::{Deserialize, Serialize};
use serde_json::json;
use std::collections::BTreeMap;

#[derive(Clone, Debug, Serialize, Deserialize)]
pub enum Step {
    Lock { frame: u8, node: u8, part: u8, key: u8, write: bool },
    /// Unlock the `ix`-th (mod count) open handle of the frame.
    Unlock { frame: u8, ix: u8 },
    /// Use (`get`) the `ix`-th open handle of the frame.
    Use { frame: u8, ix: u8 },
    /// Try to use the most recently closed handle (must not be usable).
    UseClosed,
    Query { node: u8, part: u8, key: u8 },
    QueryNode { node: u8 },
}

#[derive(Clone, Debug, Serialize, Deserialize)]
pub struct Cfg {
    pub frames: u8,
    pub nodes: u8,
    pub parts: u8,
    pub keys: u8,
    pub n_steps: usize,
    pub write_permille: u32,
    pub unlock_permille: u32,
}

pub struct C13;

fn nid(n: u8) -> NodeId {
    let mut b = [0u8; NodeId::LENGTH];
    b[0] = 0x5c;
    b[7] = n;
    NodeId(b)
}
fn skey(k: u8) -> SubstateKey {
    match k % 3 {
        0 => SubstateKey::Field(k),
        1 => SubstateKey::Map(vec![k]),
        _ => SubstateKey::Sorted(([0, k], vec![k])),
    }
}

impl World for C13 {
    type Step = Step;
    type Cfg = Cfg;
    fn property(&self) -> &'static str {
        "C13"
    }
    fn world(&self) -> &'static str {
        "lock-table"
    }
    fn rule(&self) -> String {
        "Per run: 2..6 simulated call frames over 1..8 substates of 1..3 nodes issue lock(read|write), unlock, use-handle, use-closed-handle, is_locked and node_is_locked requests in a seeded interleaving (10..500 steps). Oracle: reader/writer-lock model (write granted iff no handle open on the substate, read iff no writer; handles unique among open ones, usable exactly until unlock; node locked iff some handle on it is open). evaluations = requests issued to SubstateLocks; distinct = distinct (model lock-table digest, request kind, granted?) triples. There are no real threads here: the schedule is the order of requests.".into()
    }
    fn assumptions(&self) -> Vec<String> {
        vec!["The kernel never unlocks a handle twice and never uses a closed handle; 'not usable after close' is observed as the documented panic of get() on a closed handle.".into()]
    }
    fn real_vs_stub(&self) -> serde_json::Value {
        json!({"real": ["radix_engine::kernel::substate_locks::SubstateLocks"], "stub_or_ours": ["call frames (request generators)", "reader/writer-lock model"]})
    }
    fn probes(&self) -> Vec<&'static str> {
        vec!["write_denied_readers_open", "write_denied_writer_open", "read_denied_writer_open", "read_shared", "write_granted", "closed_handle_rejected", "node_unlocked_after_last_handle"]
    }
    fn budget(&self, tier: Tier) -> (u64, u64) {
        match tier {
            Tier::Quick => (150_000, 30),
            Tier::Thorough => (4_000_000, 600),
        }
    }
    fn gen_cfg(&self, rng: &mut Rng, _tier: Tier, _run: u64) -> Cfg {
        Cfg {
            frames: rng.range(2, 6) as u8,
            nodes: rng.range(1, 3) as u8,
            parts: rng.range(1, 2) as u8,
            keys: rng.range(1, 4) as u8,
            n_steps: rng.range(10, 500) as usize,
            write_permille: *rng.pick(&[100u32, 300, 500, 800]),
            unlock_permille: *rng.pick(&[200u32, 350, 500]),
        }
    }

    fn run(&self, cfg: &Cfg, mode: Mode<Step>) -> RunOutcome<Step> {
        let mut steps = Steps::new(mode);
        let mut stats = Stats::default();
        let mut locks: SubstateLocks<u64> = SubstateLocks::new();
        // model
        let mut open: BTreeMap<u32, ((u8, u8, u8), bool, u64)> = BTreeMap::new();
        let mut by_frame: Vec<Vec<u32>> = vec![vec![]; 8];
        let mut last_closed: Option<u32> = None;
        let mut tag = 0u64;
        let mut digest = 0u64;
        let mut violation = None;
        let mut n = 0usize;
        loop {
            let step = steps.next(|rng| {
                if n >= cfg.n_steps {
                    return None;
                }
                let frame = rng.below(cfg.frames as u64) as u8;
                let r = rng.below(1000) as u32;
                Some(if r < cfg.unlock_permille {
                    Step::Unlock { frame, ix: rng.below(8) as u8 }
                } else if r < cfg.unlock_permille + 80 {
                    Step::Use { frame, ix: rng.below(8) as u8 }
                } else if r < cfg.unlock_permille + 100 {
                    Step::UseClosed
                } else if r < cfg.unlock_permille + 160 {
                    Step::Query { node: rng.below(cfg.nodes as u64) as u8, part: rng.below(cfg.parts as u64) as u8, key: rng.below(cfg.keys as u64) as u8 }
                } else if r < cfg.unlock_permille + 220 {
                    Step::QueryNode { node: rng.below(cfg.nodes as u64) as u8 }
                } else {
                    Step::Lock {
                        frame,
                        node: rng.below(cfg.nodes as u64) as u8,
                        part: rng.below(cfg.parts as u64) as u8,
                        key: rng.below(cfg.keys as u64) as u8,
                        write: rng.below(1000) < cfg.write_permille as u64,
                    }
                })
            });
            n += 1;
            let Some(step) = step else { break };
            let ix = steps.index();
            let fail = |monitor: &str, detail: String| Violation {
                monitor: monitor.into(),
                step: ix,
                detail,
                signature: monitor.into(),
            };
            stats.evaluations += 1;
            let mut kind = 0u64;
            let mut granted = false;
            match step {
                Step::Lock { frame, node, part, key, write } => {
                    kind = 1 + write as u64;
                    let s = (node, part, key);
                    let readers = open.values().filter(|(os, w, _)| *os == s && !*w).count();
                    let writers = open.values().filter(|(os, w, _)| *os == s && *w).count();
                    let expect = if write { readers == 0 && writers == 0 } else { writers == 0 };
                    tag += 1;
                    let r = catch_quiet(|| locks.lock(&nid(node), PartitionNumber(part), &skey(key), !write, tag));
                    let r = match r {
                        Ok(r) => r,
                        Err(p) => {
                            violation = Some(fail("c13.lock_panicked", p));
                            break;
                        }
                    };
                    match (r, expect) {
                        (Some(h), true) => {
                            if open.contains_key(&h) {
                                violation = Some(fail("c13.handle_not_unique", format!("lock returned handle {} which is still open", h)));
                                break;
                            }
                            open.insert(h, (s, write, tag));
                            by_frame[frame as usize % 8].push(h);
                            granted = true;
                            if write {
                                stats.bump("write_granted");
                            } else if readers > 0 {
                                stats.bump("read_shared");
                            }
                        }
                        (None, false) => {
                            stats.bump(if write {
                                if writers > 0 { "write_denied_writer_open" } else { "write_denied_readers_open" }
                            } else {
                                "read_denied_writer_open"
                            });
                        }
                        (Some(h), false) => {
                            violation = Some(fail(
                                "c13.exclusion_violated",
                                format!("{} lock on substate {:?} granted (handle {}) while {} read and {} write handles are open on it", if write { "write" } else { "read" }, s, h, readers, writers),
                            ));
                            break;
                        }
                        (None, true) => {
                            violation = Some(fail(
                                "c13.lock_refused_without_conflict",
                                format!("{} lock on substate {:?} refused although {} read and {} write handles are open", if write { "write" } else { "read" }, s, readers, writers),
                            ));
                            break;
                        }
                    }
                }
                Step::Unlock { frame, ix } => {
                    kind = 3;
                    let f = &mut by_frame[frame as usize % 8];
                    if f.is_empty() {
                        continue;
                    }
                    let h = f.remove(ix as usize % f.len());
                    let (s, _w, t) = open.remove(&h).unwrap();
                    let r = catch_quiet(|| locks.unlock(h));
                    match r {
                        Err(p) => {
                            violation = Some(fail("c13.unlock_panicked", format!("unlock of open handle {} panicked: {}", h, p)));
                            break;
                        }
                        Ok((rn, rp, rk, rd)) => {
                            if rn != nid(s.0) || rp != PartitionNumber(s.1) || rk != skey(s.2) || rd != t {
                                violation = Some(fail("c13.unlock_returned_other_lock", format!("unlock({}) returned data of another lock", h)));
                                break;
                            }
                        }
                    }
                    last_closed = Some(h);
                    if !open.values().any(|(os, _, _)| os.0 == s.0) {
                        stats.bump("node_unlocked_after_last_handle");
                    }
                }
                Step::Use { frame, ix } => {
                    kind = 4;
                    let f = &by_frame[frame as usize % 8];
                    if f.is_empty() {
                        continue;
                    }
                    let h = f[ix as usize % f.len()];
                    let (s, _w, t) = open[&h];
                    let r = catch_quiet(|| {
                        let (a, b, c, d) = locks.get(h);
                        (*a, *b, c.clone(), *d)
                    });
                    match r {
                        Err(p) => {
                            violation = Some(fail("c13.open_handle_unusable", format!("get({}) on an open handle panicked: {}", h, p)));
                            break;
                        }
                        Ok((a, b, c, d)) => {
                            if a != nid(s.0) || b != PartitionNumber(s.1) || c != skey(s.2) || d != t {
                                violation = Some(fail("c13.handle_resolves_to_other_lock", format!("get({}) returned another lock's data", h)));
                                break;
                            }
                        }
                    }
                }
                Step::UseClosed => {
                    kind = 5;
                    let Some(h) = last_closed else { continue };
                    if open.contains_key(&h) {
                        violation = Some(fail("c13.handle_not_unique", format!("closed handle {} was handed out again", h)));
                        break;
                    }
                    let r = catch_quiet(|| {
                        let _ = locks.get(h);
                    });
                    if r.is_ok() {
                        violation = Some(fail("c13.closed_handle_usable", format!("get({}) succeeded after the handle was closed", h)));
                        break;
                    }
                    stats.bump("closed_handle_rejected");
                }
                Step::Query { node, part, key } => {
                    kind = 6;
                    let s = (node, part, key);
                    let exp = open.values().any(|(os, _, _)| *os == s);
                    let got = locks.is_locked(&nid(node), PartitionNumber(part), &skey(key));
                    if got != exp {
                        violation = Some(fail("c13.is_locked_wrong", format!("is_locked({:?}) = {} but {} handles are open on it", s, got, open.values().filter(|(os, _, _)| *os == s).count())));
                        break;
                    }
                }
                Step::QueryNode { node } => {
                    kind = 7;
                    let exp = open.values().any(|(os, _, _)| os.0 == node);
                    let got = locks.node_is_locked(&nid(node));
                    if got != exp {
                        violation = Some(fail("c13.node_is_locked_wrong", format!("node_is_locked({}) = {} but {} handles are open on its substates", node, got, open.values().filter(|(os, _, _)| os.0 == node).count())));
                        break;
                    }
                }
            }
            // cross-invariants after every step
            for node in 0..cfg.nodes {
                let exp = open.values().any(|(os, _, _)| os.0 == node);
                if locks.node_is_locked(&nid(node)) != exp {
                    violation = Some(fail("c13.node_is_locked_wrong", format!("after the step node_is_locked({}) != {}", node, exp)));
                    break;
                }
            }
            if violation.is_some() {
                break;
            }
            let mut d = 0u64;
            for (h, (s, w, _)) in &open {
                d = prng::mix(d, prng::mix(*h as u64 % 1, ((s.0 as u64) << 24) | ((s.1 as u64) << 16) | ((s.2 as u64) << 8) | *w as u64));
            }
            stats.distinct.insert(prng::mix(d, prng::mix(kind, granted as u64)));
            digest = prng::mix(digest, prng::mix(d, open.len() as u64));
        }
        RunOutcome {
            steps: steps.taken,
            violation,
            stats,
            digest,
        }
    }
}
