mod ledger;
mod locks;
mod simkit;
mod store;
mod track;

use simkit::driver::{self, EXIT_HARNESS};
use simkit::Tier;
use std::path::PathBuf;

macro_rules! dispatch {
    ($id:expr, $w:ident => $body:expr) => {
        match $id {
            "C01" => { let $w = &ledger::determinism::C01; $body }
            "C07" => { let $w = &ledger::c07::C07; $body }
            "C08" => { let $w = &ledger::auth::C08; $body }
            "C09" => { let pw = ledger::programs::Programs { id: "C09" }; let $w = &pw; $body }
            "C10" => { let pw = ledger::programs::Programs { id: "C10" }; let $w = &pw; $body }
            "C36" => { let pw = ledger::programs::Programs { id: "C36" }; let $w = &pw; $body }
            "C38" => { let pw = ledger::programs::Programs { id: "C38" }; let $w = &pw; $body }
            "C32" => { let tw = ledger::transport::Transport { id: "C32" }; let $w = &tw; $body }
            "C33" => { let tw = ledger::transport::Transport { id: "C33" }; let $w = &tw; $body }
            "C39" => { let $w = &ledger::deposits::C39; $body }
            "C40" => { let $w = &ledger::accessctl::C40; $body }
            "C41" => { let $w = &ledger::pools::C41; $body }
            "C42" => { let $w = &ledger::validators::C42; $body }
            "C43" => { let $w = &ledger::nfids::C43; $body }
            "C44" => { let $w = &ledger::c44::C44; $body }
            lid if ledger::static_id(lid).is_some() => {
                let lw = ledger::LedgerCheck { id: ledger::static_id(lid).unwrap() };
                let $w = &lw;
                $body
            }
            "C12" => { let $w = &track::C12; $body }
            "C13" => { let $w = &locks::C13; $body }
            "C14" => { let $w = &store::c14::C14; $body }
            "C15" => { let $w = &store::c15::C15; $body }
            "C17" => { let $w = &store::c17::C17; $body }
            "C18" => { let $w = &store::c18::C18; $body }
            "C19" => { let $w = &store::c19::C19; $body }
            other => {
                eprintln!("HARNESS-ERROR: no check for property {}", other);
                EXIT_HARNESS
            }
        }
    };
}

pub const ALL: &[&str] = &["C01", "C02", "C03", "C04", "C05", "C06", "C07", "C08", "C09", "C10", "C11", "C12", "C13", "C14", "C15", "C17", "C18", "C19", "C32", "C33", "C36", "C38", "C39", "C40", "C41", "C42", "C43", "C44", "C49", "C51"];

fn usage() -> i32 {
    eprintln!("usage: verif-sim check <ID> [quick|thorough] | replay <file> | selftest [runs] | list");
    EXIT_HARNESS
}

fn real_main() -> i32 {
    let args: Vec<String> = std::env::args().skip(1).collect();
    if args.is_empty() {
        return usage();
    }
    simkit::install_panic_hook();
    let code = match args[0].as_str() {
        "list" => {
            for id in ALL {
                println!("{}", id);
            }
            0
        }
        "check" => {
            if args.len() < 2 {
                return usage();
            }
            let tier = match args
                .get(2)
                .cloned()
                .or_else(|| std::env::var("VERIF_TIER").ok())
                .unwrap_or_else(|| "quick".into())
                .as_str()
            {
                "thorough" => Tier::Thorough,
                _ => Tier::Quick,
            };
            let seed = driver::seed_from_env();
            let id = args[1].as_str();
            dispatch!(id, w => driver::check(w, tier, seed))
        }
        "replay" => {
            if args.len() < 2 {
                return usage();
            }
            let path = PathBuf::from(&args[1]);
            let prop = std::fs::read_to_string(&path)
                .ok()
                .and_then(|s| serde_json::from_str::<serde_json::Value>(&s).ok())
                .and_then(|v| v.get("property").and_then(|p| p.as_str().map(|s| s.to_string())));
            let Some(prop) = prop else {
                eprintln!("HARNESS-ERROR: {} is not a replay file", path.display());
                return EXIT_HARNESS;
            };
            let id = prop.as_str();
            dispatch!(id, w => driver::replay(w, &path))
        }
        "selftest" => {
            let runs: u64 = args.get(1).and_then(|s| s.parse().ok()).unwrap_or(64);
            let only: Option<String> = args.get(2).cloned();
            let seed = driver::seed_from_env();
            let mut code = 0;
            for id in ALL {
                if let Some(o) = &only {
                    if o != id {
                        continue;
                    }
                }
                let r = dispatch!(*id, w => {
                    match driver::selftest(w, seed, runs) {
                        Ok(d) => { println!("selftest {} runs={} combined_digest={:016x}", id, runs, d); 0 }
                        Err(e) => { println!("HARNESS-ERROR: NONDETERMINISM\n{}", e); EXIT_HARNESS }
                    }
                });
                if r != 0 {
                    code = r;
                }
            }
            code
        }
        "child-commit" => store::c19::child_commit(&args[1..]),
        "run-digest" => {
            // run-digest <ID> <seed> <run> <tier>
            if args.len() < 5 {
                return usage();
            }
            let seed: u64 = args[2].parse().unwrap_or(1);
            let run: u64 = args[3].parse().unwrap_or(0);
            let tier = if args[4] == "thorough" { Tier::Thorough } else { Tier::Quick };
            let id = args[1].as_str();
            dispatch!(id, w => driver::run_digest(w, seed, run, tier))
        }
        _ => usage(),
    };
    simkit::remove_scratch_root();
    code
}

fn main() {
    std::process::exit(real_main());
}
