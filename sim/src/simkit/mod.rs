//! Simulator core: PRNG streams, traces and replay, ddmin, the batch driver, evidence and
//! known-findings handling. Worlds plug in through the `World` trait.

pub mod driver;
pub mod prng;

use serde::{de::DeserializeOwned, Deserialize, Serialize};
use std::collections::{BTreeMap, BTreeSet};

pub use prng::Rng;

#[derive(Clone, Copy, Debug, PartialEq, Eq, Serialize, Deserialize)]
#[serde(rename_all = "lowercase")]
pub enum Tier {
    Quick,
    Thorough,
}

impl Tier {
    pub fn name(&self) -> &'static str {
        match self {
            Tier::Quick => "quick",
            Tier::Thorough => "thorough",
        }
    }
}

#[derive(Clone, Debug, Serialize, Deserialize, PartialEq, Eq)]
pub struct Violation {
    /// Name of the monitor that fired (`c19.mixture`, ...). Shrinking keeps the monitor fixed.
    pub monitor: String,
    /// Index of the step at which it fired.
    pub step: usize,
    pub detail: String,
    /// Identifies the specific failing input / call site / history class for known-findings.
    #[serde(default)]
    pub signature: String,
}

/// Counters and measured coverage of one run; merged over a batch.
#[derive(Clone, Debug, Default)]
pub struct Stats {
    pub counters: BTreeMap<String, u64>,
    /// Digests of distinct non-trivial cases (by the world's stated rule).
    pub distinct: BTreeSet<u64>,
    /// Executions against real code.
    pub evaluations: u64,
    pub sim_time_ms: u64,
}

/// The distinct-case set is capped (memory); the evidence says so when the cap is reached.
pub const DISTINCT_CAP: usize = 4_000_000;

static TOLERATED: std::sync::OnceLock<BTreeSet<String>> = std::sync::OnceLock::new();

/// Tier in which `Mode::Replay` runs (worlds may size sweeps by tier): set by the driver from the
/// batch's tier or the trace's recorded tier.
pub static REPLAY_TIER_THOROUGH: std::sync::atomic::AtomicBool = std::sync::atomic::AtomicBool::new(false);

pub fn set_replay_tier(tier: Tier) {
    REPLAY_TIER_THOROUGH.store(tier == Tier::Thorough, std::sync::atomic::Ordering::Relaxed);
}

/// Signatures of recorded known findings (kind "known") that a world may step over so that a
/// run continues past them. Set once by the driver; empty if never set.
pub fn set_tolerated_signatures(s: BTreeSet<String>) {
    let _ = TOLERATED.set(s);
}

pub const KNOWN_COUNTER_PREFIX: &str = "known_finding.";

impl Stats {
    /// True (and counted) iff `signature` is a recorded known finding: the world continues the run
    /// instead of ending it with this violation; the driver prints the KNOWN-FINDING line.
    pub fn tolerate(&mut self, signature: &str) -> bool {
        if TOLERATED.get().map(|s| s.contains(signature)).unwrap_or(false) {
            self.bump(&format!("{}{}", KNOWN_COUNTER_PREFIX, signature));
            true
        } else {
            false
        }
    }
    pub fn bump(&mut self, key: &str) {
        self.add(key, 1);
    }
    pub fn add(&mut self, key: &str, n: u64) {
        *self.counters.entry(key.to_string()).or_insert(0) += n;
    }
    pub fn touch(&mut self, key: &str) {
        self.counters.entry(key.to_string()).or_insert(0);
    }
    pub fn merge(&mut self, other: &Stats) {
        for (k, v) in &other.counters {
            *self.counters.entry(k.clone()).or_insert(0) += v;
        }
        for d in &other.distinct {
            if self.distinct.len() >= DISTINCT_CAP {
                break;
            }
            self.distinct.insert(*d);
        }
        self.evaluations += other.evaluations;
        self.sim_time_ms += other.sim_time_ms;
    }
}

pub struct RunOutcome<S> {
    /// The steps actually executed (generated or replayed).
    pub steps: Vec<S>,
    pub violation: Option<Violation>,
    pub stats: Stats,
    /// Digest of everything observable in the run; two executions of the same trace must agree.
    pub digest: u64,
}

pub enum Mode<'a, S> {
    Generate { rng: &'a mut Rng, tier: Tier },
    Replay(&'a [S]),
}

/// Step supply shared by generation and replay: a world asks for its next step either from
/// its generator (which may look at the world) or from the recorded list.
pub struct Steps<'a, S: Clone> {
    mode: Mode<'a, S>,
    pos: usize,
    pub taken: Vec<S>,
}

impl<'a, S: Clone> Steps<'a, S> {
    pub fn new(mode: Mode<'a, S>) -> Self {
        Steps {
            mode,
            pos: 0,
            taken: vec![],
        }
    }
    pub fn is_replay(&self) -> bool {
        matches!(self.mode, Mode::Replay(_))
    }
    pub fn tier(&self) -> Tier {
        match &self.mode {
            Mode::Generate { tier, .. } => *tier,
            // a replay runs in the tier of the batch / trace it belongs to (set by the driver)
            Mode::Replay(_) => {
                if REPLAY_TIER_THOROUGH.load(std::sync::atomic::Ordering::Relaxed) {
                    Tier::Thorough
                } else {
                    Tier::Quick
                }
            }
        }
    }
    /// `gen` returns None when the generator wants to end the run.
    pub fn next(&mut self, gen: impl FnOnce(&mut Rng) -> Option<S>) -> Option<S> {
        let s = match &mut self.mode {
            Mode::Generate { rng, .. } => gen(rng),
            Mode::Replay(v) => {
                let s = v.get(self.pos).cloned();
                self.pos += 1;
                s
            }
        }?;
        self.taken.push(s.clone());
        Some(s)
    }
    pub fn index(&self) -> usize {
        self.taken.len().saturating_sub(1)
    }
}

pub trait World: Sync {
    type Step: Serialize + DeserializeOwned + Clone + Send + std::fmt::Debug;
    type Cfg: Serialize + DeserializeOwned + Clone + Send + std::fmt::Debug;

    fn property(&self) -> &'static str;
    fn world(&self) -> &'static str;
    fn level(&self) -> &'static str {
        "exploration"
    }
    /// Rule stated in the evidence: how cases are generated and what makes one distinct/non-trivial.
    fn rule(&self) -> String;
    fn assumptions(&self) -> Vec<String>;
    fn real_vs_stub(&self) -> serde_json::Value;
    /// Counter names that must be present (and are highlighted when zero).
    fn probes(&self) -> Vec<&'static str> {
        vec![]
    }

    /// (number of runs, wall-clock cap in seconds) for the tier.
    fn budget(&self, tier: Tier) -> (u64, u64);

    /// Draws the per-run swarm configuration.
    fn gen_cfg(&self, rng: &mut Rng, tier: Tier, run: u64) -> Self::Cfg;

    /// Executes one run. Must be a pure function of (cfg, steps) in replay mode.
    fn run(&self, cfg: &Self::Cfg, mode: Mode<Self::Step>) -> RunOutcome<Self::Step>;

    /// Optional per-step simplifications tried after ddmin (each candidate replaces step i).
    fn simplify_step(&self, _step: &Self::Step) -> Vec<Self::Step> {
        vec![]
    }
    /// Optional simplifications of the configuration.
    fn simplify_cfg(&self, _cfg: &Self::Cfg) -> Vec<Self::Cfg> {
        vec![]
    }
}

#[derive(Clone, Debug, Serialize, Deserialize)]
pub struct Trace<C, S> {
    pub format: u32,
    pub property: String,
    pub world: String,
    pub seed: u64,
    pub run: u64,
    pub tier: Tier,
    pub cfg: C,
    pub steps: Vec<S>,
    pub violation: Option<Violation>,
}

/// Byte strings are written as hex in traces.
#[derive(Clone, PartialEq, Eq, PartialOrd, Ord, Hash, Default)]
pub struct Hex(pub Vec<u8>);

impl std::fmt::Debug for Hex {
    fn fmt(&self, f: &mut std::fmt::Formatter<'_>) -> std::fmt::Result {
        write!(f, "x{}", hex::encode(&self.0))
    }
}

impl Serialize for Hex {
    fn serialize<Z: serde::Serializer>(&self, s: Z) -> Result<Z::Ok, Z::Error> {
        s.serialize_str(&hex::encode(&self.0))
    }
}
impl<'de> Deserialize<'de> for Hex {
    fn deserialize<D: serde::Deserializer<'de>>(d: D) -> Result<Self, D::Error> {
        let s = String::deserialize(d)?;
        hex::decode(&s).map(Hex).map_err(serde::de::Error::custom)
    }
}

// -------------------------------------------------------------------------------------------------
// Panic capture: a silent hook that records message and location in a thread-local.

thread_local! {
    pub static LAST_PANIC: std::cell::RefCell<Option<String>> = const { std::cell::RefCell::new(None) };
    pub static QUIET_PANICS: std::cell::Cell<bool> = const { std::cell::Cell::new(false) };
}

pub fn install_panic_hook() {
    let default = std::panic::take_hook();
    std::panic::set_hook(Box::new(move |info| {
        let quiet = QUIET_PANICS.with(|q| q.get());
        let msg = if let Some(s) = info.payload().downcast_ref::<&str>() {
            s.to_string()
        } else if let Some(s) = info.payload().downcast_ref::<String>() {
            s.clone()
        } else {
            "<non-string panic payload>".to_string()
        };
        let loc = info
            .location()
            .map(|l| format!("{}:{}", l.file(), l.line()))
            .unwrap_or_default();
        LAST_PANIC.with(|p| *p.borrow_mut() = Some(format!("{} @ {}", msg, loc)));
        if !quiet {
            default(info);
        }
    }));
}

/// Runs `f` catching panics silently; returns Err(message @ location) on panic.
pub fn catch_quiet<T>(f: impl FnOnce() -> T) -> Result<T, String> {
    let prev = QUIET_PANICS.with(|q| q.replace(true));
    LAST_PANIC.with(|p| *p.borrow_mut() = None);
    let r = std::panic::catch_unwind(std::panic::AssertUnwindSafe(f));
    QUIET_PANICS.with(|q| q.set(prev));
    match r {
        Ok(v) => Ok(v),
        Err(_) => Err(LAST_PANIC
            .with(|p| p.borrow_mut().take())
            .unwrap_or_else(|| "<panic>".to_string())),
    }
}

pub fn scratch_root() -> std::path::PathBuf {
    let base = std::env::var("VERIF_SCRATCH").unwrap_or_else(|_| "/dev/shm".to_string());
    let p = std::path::PathBuf::from(base).join(format!("verif-{}", std::process::id()));
    std::fs::create_dir_all(&p).expect("scratch dir");
    p
}

pub fn remove_scratch_root() {
    let base = std::env::var("VERIF_SCRATCH").unwrap_or_else(|_| "/dev/shm".to_string());
    let p = std::path::PathBuf::from(base).join(format!("verif-{}", std::process::id()));
    let _ = std::fs::remove_dir_all(p);
}
