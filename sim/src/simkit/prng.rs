//! One integer decides everything: every choice of a run is drawn from a `Rng` derived from
//! (VERIF_SEED, run index, stream name). No logging path draws from it.

#[derive(Clone, Debug)]
pub struct Rng {
    s: [u64; 4],
}

fn splitmix(x: &mut u64) -> u64 {
    *x = x.wrapping_add(0x9E37_79B9_7F4A_7C15);
    let mut z = *x;
    z = (z ^ (z >> 30)).wrapping_mul(0xBF58_476D_1CE4_E5B9);
    z = (z ^ (z >> 27)).wrapping_mul(0x94D0_49BB_1331_11EB);
    z ^ (z >> 31)
}

pub fn fnv64(bytes: &[u8]) -> u64 {
    let mut h: u64 = 0xcbf2_9ce4_8422_2325;
    for b in bytes {
        h ^= *b as u64;
        h = h.wrapping_mul(0x0000_0100_0000_01B3);
    }
    h
}

/// Mixes a sequence of words into one (used for digests of observations; not cryptographic).
pub fn mix(a: u64, b: u64) -> u64 {
    let mut x = a ^ b.wrapping_mul(0x9E37_79B9_7F4A_7C15).rotate_left(23);
    splitmix(&mut x)
}

impl Rng {
    pub fn from_u64(seed: u64) -> Self {
        let mut x = seed;
        let s = [
            splitmix(&mut x),
            splitmix(&mut x),
            splitmix(&mut x),
            splitmix(&mut x),
        ];
        Rng { s }
    }

    /// Sub-stream: removing a step while shrinking does not shift unrelated choices.
    pub fn derive(seed: u64, run: u64, stream: &str) -> Self {
        let h = mix(mix(seed, run), fnv64(stream.as_bytes()));
        Self::from_u64(h)
    }

    pub fn fork(&mut self, stream: &str) -> Self {
        let a = self.next_u64();
        Self::from_u64(mix(a, fnv64(stream.as_bytes())))
    }

    pub fn next_u64(&mut self) -> u64 {
        let result = self.s[1].wrapping_mul(5).rotate_left(7).wrapping_mul(9);
        let t = self.s[1] << 17;
        self.s[2] ^= self.s[0];
        self.s[3] ^= self.s[1];
        self.s[1] ^= self.s[2];
        self.s[0] ^= self.s[3];
        self.s[2] ^= t;
        self.s[3] = self.s[3].rotate_left(45);
        result
    }

    /// Uniform in [0, n). n must be > 0.
    pub fn below(&mut self, n: u64) -> u64 {
        debug_assert!(n > 0);
        // Lemire's method without the rejection loop's bias mattering at our sizes
        ((self.next_u64() as u128 * n as u128) >> 64) as u64
    }

    pub fn usize_below(&mut self, n: usize) -> usize {
        self.below(n as u64) as usize
    }

    /// Uniform in [lo, hi] inclusive.
    pub fn range(&mut self, lo: u64, hi: u64) -> u64 {
        lo + self.below(hi - lo + 1)
    }

    pub fn range_i64(&mut self, lo: i64, hi: i64) -> i64 {
        lo.wrapping_add(self.below((hi - lo) as u64 + 1) as i64)
    }

    pub fn chance(&mut self, num: u64, den: u64) -> bool {
        self.below(den) < num
    }

    pub fn prob(&mut self, p: f64) -> bool {
        (self.next_u64() >> 11) as f64 / ((1u64 << 53) as f64) < p
    }

    pub fn pick<'a, T>(&mut self, xs: &'a [T]) -> &'a T {
        &xs[self.usize_below(xs.len())]
    }

    pub fn pick_weighted<'a, T>(&mut self, xs: &'a [(u32, T)]) -> &'a T {
        let total: u64 = xs.iter().map(|(w, _)| *w as u64).sum();
        let mut r = self.below(total.max(1));
        for (w, x) in xs {
            if r < *w as u64 {
                return x;
            }
            r -= *w as u64;
        }
        &xs[xs.len() - 1].1
    }

    pub fn bytes(&mut self, n: usize) -> Vec<u8> {
        (0..n).map(|_| self.next_u64() as u8).collect()
    }

    pub fn shuffle<T>(&mut self, xs: &mut [T]) {
        for i in (1..xs.len()).rev() {
            let j = self.usize_below(i + 1);
            xs.swap(i, j);
        }
    }
}
