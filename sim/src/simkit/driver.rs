//! Batch driver: seeded runs on a worker pool, replay self-check, minimisation, fresh-process
//! confirmation, evidence and known-findings handling.

use super::*;
use serde_json::json;
use std::path::{Path, PathBuf};
use std::sync::atomic::{AtomicBool, AtomicU64, Ordering};
use std::sync::Mutex;
use std::time::{Duration, Instant};

pub const EXIT_OK: i32 = 0;
pub const EXIT_VIOLATION: i32 = 1;
pub const EXIT_HARNESS: i32 = 2;
/// The first runs of every batch are re-run in a fresh process and their digests compared.
pub const FRESH_PROCESS_RUNS: u64 = 2;

/// Child side of the fresh-process check: runs one generated run and prints its digest.
pub fn run_digest<W: World>(w: &W, seed: u64, run: u64, tier: Tier) -> i32 {
    super::set_tolerated_signatures(
        load_known()
            .into_iter()
            .filter(|k| k.kind == "known" && k.property == w.property())
            .map(|k| k.signature)
            .collect(),
    );
    let mut swarm = Rng::derive(seed, run, "swarm");
    let cfg = w.gen_cfg(&mut swarm, tier, run);
    let mut rng = Rng::derive(seed, run, "workload");
    let out = w.run(&cfg, Mode::Generate { rng: &mut rng, tier });
    eprintln!("DIGEST {:016x}", out.digest);
    0
}

pub fn verif_root() -> PathBuf {
    PathBuf::from(std::env::var("VERIF_ROOT").unwrap_or_else(|_| "/verif".to_string()))
}

pub fn seed_from_env() -> u64 {
    std::env::var("VERIF_SEED")
        .ok()
        .and_then(|s| s.trim().parse::<u64>().ok())
        .unwrap_or(1)
}

pub fn workers() -> usize {
    std::env::var("VERIF_WORKERS")
        .ok()
        .and_then(|s| s.parse().ok())
        .unwrap_or_else(|| {
            std::thread::available_parallelism()
                .map(|n| n.get())
                .unwrap_or(4)
                .min(16)
        })
}

#[derive(Clone, Debug, Serialize, Deserialize)]
pub struct KnownFinding {
    pub property: String,
    /// "known" (recorded, not repaired) or "fixed" (repaired by a `fix:` commit; suppresses nothing).
    pub kind: String,
    #[serde(default)]
    pub commit: Option<String>,
    pub signature: String,
    pub what: String,
}

pub fn load_known() -> Vec<KnownFinding> {
    let p = verif_root().join("known_findings.json");
    match std::fs::read_to_string(&p) {
        Ok(s) => serde_json::from_str(&s).unwrap_or_else(|e| {
            eprintln!("HARNESS-ERROR: cannot parse {}: {}", p.display(), e);
            std::process::exit(EXIT_HARNESS)
        }),
        Err(_) => vec![],
    }
}

fn known_match<'a>(known: &'a [KnownFinding], property: &str, v: &Violation) -> Option<&'a KnownFinding> {
    known
        .iter()
        .find(|k| k.kind == "known" && k.property == property && !v.signature.is_empty() && k.signature == v.signature)
}

struct Found<C, S> {
    run: u64,
    cfg: C,
    steps: Vec<S>,
    violation: Violation,
}

/// Replays `steps`; true iff the same monitor fires.
fn reproduces<W: World>(w: &W, cfg: &W::Cfg, steps: &[W::Step], monitor: &str) -> Option<Violation> {
    let out = w.run(cfg, Mode::Replay(steps));
    out.violation.filter(|v| v.monitor == monitor)
}

fn minimise<W: World>(
    w: &W,
    cfg: &W::Cfg,
    steps: Vec<W::Step>,
    v: &Violation,
    budget: Duration,
) -> (W::Cfg, Vec<W::Step>, Violation) {
    let start = Instant::now();
    let mut cfg = cfg.clone();
    let mut v = v.clone();
    // (1) truncate after the violating step
    let mut steps: Vec<W::Step> = steps.into_iter().take(v.step + 1).collect();
    if let Some(v2) = reproduces(w, &cfg, &steps, &v.monitor) {
        v = v2;
    } else {
        // truncation changed the outcome (end-of-run monitor): keep all steps
        return (cfg, steps, v);
    }
    // (2) ddmin
    let mut n = 2usize;
    while steps.len() >= 2 && start.elapsed() < budget {
        let chunk = (steps.len() + n - 1) / n;
        let mut reduced = false;
        let mut i = 0;
        while i * chunk < steps.len() {
            if start.elapsed() >= budget {
                break;
            }
            let lo = i * chunk;
            let hi = (lo + chunk).min(steps.len());
            let cand: Vec<W::Step> = steps[..lo].iter().chain(steps[hi..].iter()).cloned().collect();
            if !cand.is_empty() || true {
                if let Some(v2) = reproduces(w, &cfg, &cand, &v.monitor) {
                    steps = cand;
                    v = v2;
                    n = (n - 1).max(2);
                    reduced = true;
                    break;
                }
            }
            i += 1;
        }
        if !reduced {
            if n >= steps.len() {
                break;
            }
            n = (n * 2).min(steps.len());
        }
    }
    // (3) per-step simplification to fixpoint
    let mut changed = true;
    while changed && start.elapsed() < budget {
        changed = false;
        for i in 0..steps.len() {
            for cand_step in w.simplify_step(&steps[i]) {
                if start.elapsed() >= budget {
                    break;
                }
                let mut cand = steps.clone();
                cand[i] = cand_step;
                if let Some(v2) = reproduces(w, &cfg, &cand, &v.monitor) {
                    steps = cand;
                    v = v2;
                    changed = true;
                    break;
                }
            }
        }
    }
    // (4) shrink the swarm configuration
    let mut changed = true;
    while changed && start.elapsed() < budget {
        changed = false;
        for cand_cfg in w.simplify_cfg(&cfg) {
            if let Some(v2) = reproduces(w, &cand_cfg, &steps, &v.monitor) {
                cfg = cand_cfg;
                v = v2;
                changed = true;
                break;
            }
        }
    }
    // truncate again (the violating step may have moved forward)
    let t: Vec<W::Step> = steps.iter().take(v.step + 1).cloned().collect();
    if let Some(v2) = reproduces(w, &cfg, &t, &v.monitor) {
        steps = t;
        v = v2;
    }
    (cfg, steps, v)
}

fn write_trace<W: World>(
    w: &W,
    path: &Path,
    seed: u64,
    run: u64,
    tier: Tier,
    cfg: &W::Cfg,
    steps: &[W::Step],
    v: Option<&Violation>,
) {
    let t = Trace {
        format: 1,
        property: w.property().to_string(),
        world: w.world().to_string(),
        seed,
        run,
        tier,
        cfg: cfg.clone(),
        steps: steps.to_vec(),
        violation: v.cloned(),
    };
    if let Some(parent) = path.parent() {
        let _ = std::fs::create_dir_all(parent);
    }
    std::fs::write(path, serde_json::to_string_pretty(&t).unwrap()).expect("write trace");
}

/// Re-runs a replay file in a fresh process; true iff it reports the violation.
fn confirm_in_fresh_process(path: &Path) -> bool {
    let exe = std::env::current_exe().expect("current_exe");
    let out = std::process::Command::new(exe)
        .arg("replay")
        .arg(path)
        .env("VERIF_NO_KNOWN", "1")
        .output();
    match out {
        Ok(o) => o.status.code() == Some(EXIT_VIOLATION),
        Err(_) => false,
    }
}

pub fn check<W: World>(w: &W, tier: Tier, seed: u64) -> i32 {
    let start = Instant::now();
    let (n_runs, wall_cap) = w.budget(tier);
    let wall_cap = std::env::var("VERIF_WALL_CAP")
        .ok()
        .and_then(|s| s.parse().ok())
        .unwrap_or(wall_cap);
    let n_runs = std::env::var("VERIF_RUNS")
        .ok()
        .and_then(|s| s.parse().ok())
        .unwrap_or(n_runs);
    let deadline = start + Duration::from_secs(wall_cap);
    super::set_replay_tier(tier);
    // recorded known findings may be stepped over by the world, so that runs continue past them
    super::set_tolerated_signatures(
        load_known()
            .into_iter()
            .filter(|k| k.kind == "known" && k.property == w.property())
            .map(|k| k.signature)
            .collect(),
    );
    println!(
        "verif-sim check property={} world={} tier={} VERIF_SEED={} runs<={} wall_cap_s={} workers={}",
        w.property(),
        w.world(),
        tier.name(),
        seed,
        n_runs,
        wall_cap,
        workers()
    );

    let next = AtomicU64::new(0);
    let stop = AtomicBool::new(false);
    let agg = Mutex::new(Stats::default());
    let found: Mutex<Vec<Found<W::Cfg, W::Step>>> = Mutex::new(vec![]);
    let nondet: Mutex<Vec<String>> = Mutex::new(vec![]);
    let samples: Mutex<Vec<(u64, serde_json::Value, usize)>> = Mutex::new(vec![]);
    let runs_done = AtomicU64::new(0);
    let replay_checked = AtomicU64::new(0);
    let longest_seen = AtomicU64::new(0);
    let early_digests: Mutex<BTreeMap<u64, u64>> = Mutex::new(BTreeMap::new());
    // fresh-process re-runs of the first runs start now and overlap with the batch
    let mut fresh_children: Vec<(u64, std::process::Child)> = vec![];
    if std::env::var("VERIF_NO_FRESH_PROCESS").is_err() {
        let exe = std::env::current_exe().expect("current_exe");
        for run in 0..FRESH_PROCESS_RUNS.min(n_runs) {
            if let Ok(c) = std::process::Command::new(&exe)
                .args(["run-digest", w.property(), &seed.to_string(), &run.to_string(), tier.name()])
                .env("VERIF_KERNEL_TRACE", "1")
                .stdout(std::process::Stdio::null())
                .stderr(std::process::Stdio::piped())
                .spawn()
            {
                fresh_children.push((run, c));
            }
        }
    }

    std::thread::scope(|sc| {
        for _ in 0..workers() {
            sc.spawn(|| {
              let mut local = Stats::default();
              loop {
                if stop.load(Ordering::Relaxed) || Instant::now() >= deadline {
                    break;
                }
                let run = next.fetch_add(1, Ordering::Relaxed);
                if run >= n_runs {
                    break;
                }
                let mut swarm = Rng::derive(seed, run, "swarm");
                let cfg = w.gen_cfg(&mut swarm, tier, run);
                let mut rng = Rng::derive(seed, run, "workload");
                let out = w.run(&cfg, Mode::Generate { rng: &mut rng, tier });
                // replay self-check: replay must be a pure function of (cfg, steps)
                if out.violation.is_none() && (run < 4 || run % 16 == 5) {
                    let again = w.run(&cfg, Mode::Replay(&out.steps));
                    replay_checked.fetch_add(1, Ordering::Relaxed);
                    if again.digest != out.digest || again.violation.is_some() {
                        nondet.lock().unwrap().push(format!(
                            "run {}: generate digest {:016x} vs replay digest {:016x} (replay violation: {:?})",
                            run, out.digest, again.digest, again.violation
                        ));
                    }
                }
                local.merge(&out.stats);
                longest_seen.fetch_max(out.steps.len() as u64, Ordering::Relaxed);
                if run < FRESH_PROCESS_RUNS && out.violation.is_none() {
                    early_digests.lock().unwrap().insert(run, out.digest);
                }
                if run < 3 {
                    // samples: the first three runs, written out (deterministic choice)
                    let len = out.steps.len();
                    let shown: Vec<&W::Step> = out.steps.iter().take(30).collect();
                    let val = json!({
                        "run": run,
                        "cfg": serde_json::to_value(&cfg).unwrap(),
                        "steps_total": len,
                        "steps_first_30": serde_json::to_value(&shown).unwrap(),
                    });
                    samples.lock().unwrap().push((run, val, len));
                }
                runs_done.fetch_add(1, Ordering::Relaxed);
                if let Some(v) = out.violation {
                    let mut f = found.lock().unwrap();
                    f.push(Found {
                        run,
                        cfg,
                        steps: out.steps,
                        violation: v,
                    });
                    if f.len() >= 8 {
                        stop.store(true, Ordering::Relaxed);
                    }
                }
              }
              agg.lock().unwrap().merge(&local);
            });
        }
    });

    let stats = agg.into_inner().unwrap();
    let mut found = found.into_inner().unwrap();
    found.sort_by_key(|f| f.run);
    let nondet = nondet.into_inner().unwrap();
    let runs_done = runs_done.load(Ordering::Relaxed);

    let mut exit = EXIT_OK;
    let mut nondet = nondet;
    // Fresh-process re-run of the first runs (other process, ASLR, allocator state; the child
    // also enables kernel tracing with stdout discarded): digests must agree.
    let mut fresh_checked = 0u64;
    {
        let early = early_digests.into_inner().unwrap();
        for (run, child) in fresh_children {
            let out = child.wait_with_output();
            let Some(digest) = early.get(&run).copied() else { continue };
            match out {
                Ok(o) => {
                    let text = String::from_utf8_lossy(&o.stderr).to_string();
                    let got = text
                        .lines()
                        .find_map(|l| l.strip_prefix("DIGEST "))
                        .and_then(|h| u64::from_str_radix(h.trim(), 16).ok());
                    fresh_checked += 1;
                    if got != Some(digest) {
                        nondet.push(format!(
                            "run {}: digest {:016x} in this process, {:?} in a fresh process (kernel trace on)",
                            run,
                            digest,
                            got.map(|g| format!("{:016x}", g))
                        ));
                    }
                }
                Err(e) => nondet.push(format!("cannot spawn fresh process: {}", e)),
            }
        }
    }
    if !nondet.is_empty() {
        for n in &nondet {
            println!("HARNESS-ERROR: NONDETERMINISM {}", n);
        }
        exit = EXIT_HARNESS;
    }

    // Triage violations: known findings vs new ones; distinct by (monitor, signature).
    let known = load_known();
    let mut reported_known: BTreeSet<String> = BTreeSet::new();
    let mut seen_classes: BTreeSet<(String, String)> = BTreeSet::new();
    let mut n_violations = 0u64;
    let mut n_known = 0u64;
    let min_budget = Duration::from_secs(match tier {
        Tier::Quick => 60,
        Tier::Thorough => 300,
    });
    let mut replay_files = vec![];
    // known findings the worlds stepped over (counted in the run statistics)
    for k in known.iter().filter(|k| k.kind == "known" && k.property == w.property()) {
        let hits = stats.counters.get(&format!("{}{}", super::KNOWN_COUNTER_PREFIX, k.signature)).copied().unwrap_or(0);
        if hits > 0 {
            n_known += hits;
            if reported_known.insert(k.signature.clone()) {
                println!("KNOWN-FINDING: property={} {} [signature={} observed={}]", w.property(), k.what, k.signature, hits);
            }
        }
    }
    for f in found {
        let class = (f.violation.monitor.clone(), f.violation.signature.clone());
        if let Some(k) = known_match(&known, w.property(), &f.violation) {
            n_known += 1;
            if reported_known.insert(k.signature.clone()) {
                println!("KNOWN-FINDING: property={} {} [signature={}]", w.property(), k.what, k.signature);
            }
            continue;
        }
        if !seen_classes.insert(class) || n_violations >= 3 {
            continue;
        }
        // minimise, write, confirm in a fresh process
        let full_path = verif_root().join("replays").join(format!(
            "{}-{}-{}-full.json",
            w.property(),
            seed,
            f.run
        ));
        write_trace(w, &full_path, seed, f.run, tier, &f.cfg, &f.steps, Some(&f.violation));
        let (mcfg, msteps, mv) = minimise(w, &f.cfg, f.steps.clone(), &f.violation, min_budget);
        // a minimised trace must not have turned into a known finding
        let min_path = verif_root()
            .join("replays")
            .join(format!("{}-{}-{}.json", w.property(), seed, f.run));
        write_trace(w, &min_path, seed, f.run, tier, &mcfg, &msteps, Some(&mv));
        let path = if confirm_in_fresh_process(&min_path) {
            let _ = std::fs::remove_file(&full_path);
            min_path
        } else if confirm_in_fresh_process(&full_path) {
            println!(
                "HARNESS-NOTE: minimised trace did not reproduce in a fresh process; reporting the full trace"
            );
            full_path
        } else {
            println!(
                "HARNESS-ERROR: violation {} (run {}) did not reproduce in a fresh process: {}",
                f.violation.monitor, f.run, f.violation.detail
            );
            exit = EXIT_HARNESS;
            continue;
        };
        n_violations += 1;
        println!(
            "violation: monitor={} run={} step={} steps_in_replay={} detail={}",
            mv.monitor,
            f.run,
            mv.step,
            msteps.len(),
            mv.detail
        );
        println!("VIOLATION property={} replay={}", w.property(), path.display());
        replay_files.push(path.display().to_string());
    }
    if n_violations > 0 && exit == EXIT_OK {
        exit = EXIT_VIOLATION;
    }

    // Evidence
    let wall = start.elapsed().as_secs_f64();
    let mut counters = serde_json::Map::new();
    for p in w.probes() {
        counters.insert(p.to_string(), json!(0));
    }
    for (k, v) in &stats.counters {
        counters.insert(k.clone(), json!(v));
    }
    let zero_probes: Vec<String> = w
        .probes()
        .iter()
        .filter(|p| stats.counters.get(**p).copied().unwrap_or(0) == 0)
        .map(|p| p.to_string())
        .collect();
    let mut samples = samples.into_inner().unwrap();
    samples.sort_by_key(|s| s.0);
    let samples: Vec<serde_json::Value> = samples.into_iter().map(|s| s.1).collect();
    let evidence = json!({
        "property_id": w.property(),
        "tier": tier.name(),
        "seed": seed,
        "level": w.level(),
        "wall_s": wall,
        "violations": n_violations,
        "coverage": {
            "evaluations": stats.evaluations,
            "distinct_nontrivial": stats.distinct.len(),
            "distinct_cap_reached": stats.distinct.len() >= DISTINCT_CAP,
            "rule": w.rule(),
            "samples": samples,
            "runs": runs_done,
            "runs_per_hour": if wall > 0.0 { (runs_done as f64 / wall * 3600.0) as u64 } else { 0 },
            "seeds": format!("VERIF_SEED={} x run index 0..{} (each run derives its own streams)", seed, runs_done),
            "simulated_time_ms": stats.sim_time_ms,
            "counters": counters,
            "reach_probes_at_zero": zero_probes,
            "replay_self_checks": replay_checked.load(Ordering::Relaxed),
            "fresh_process_digest_checks": fresh_checked,
            "known_findings_observed": n_known,
            "replay_files": replay_files,
            "real_vs_stub": w.real_vs_stub(),
            "workers": workers(),
        },
        "assumptions": w.assumptions(),
    });
    let evdir = verif_root().join("evidence");
    let _ = std::fs::create_dir_all(&evdir);
    std::fs::write(
        evdir.join(format!("{}.json", w.property())),
        serde_json::to_string_pretty(&evidence).unwrap(),
    )
    .expect("write evidence");

    println!(
        "done property={} runs={} evaluations={} distinct_nontrivial={} violations={} known_findings_observed={} wall_s={:.1} exit={}",
        w.property(),
        runs_done,
        stats.evaluations,
        stats.distinct.len(),
        n_violations,
        n_known,
        wall,
        exit
    );
    if !zero_probes.is_empty() {
        println!("note: reach probes at zero: {:?}", zero_probes);
    }
    // observations that belong to another property never fail this check, but they are not silent
    let foreign: Vec<String> = stats.counters.iter().filter(|(k, _)| k.starts_with("note.other_property.")).map(|(k, v)| format!("{}={}", &k["note.other_property.".len()..], v)).collect();
    if !foreign.is_empty() {
        println!("note: observations belonging to other properties (runs ended there): {}", foreign.join(", "));
    }
    exit
}

/// Replays a trace file; exit 1 and the VIOLATION line iff a violation (of any monitor) fires.
pub fn replay<W: World>(w: &W, path: &Path) -> i32 {
    let s = match std::fs::read_to_string(path) {
        Ok(s) => s,
        Err(e) => {
            eprintln!("HARNESS-ERROR: cannot read {}: {}", path.display(), e);
            return EXIT_HARNESS;
        }
    };
    let t: Trace<W::Cfg, W::Step> = match serde_json::from_str(&s) {
        Ok(t) => t,
        Err(e) => {
            eprintln!("HARNESS-ERROR: cannot parse {}: {}", path.display(), e);
            return EXIT_HARNESS;
        }
    };
    super::set_replay_tier(t.tier);
    // like check(): step over recorded known findings - except the one this file itself records
    let own_signature = t.violation.as_ref().map(|v| v.signature.clone());
    super::set_tolerated_signatures(
        load_known()
            .into_iter()
            .filter(|k| k.kind == "known" && k.property == w.property() && Some(&k.signature) != own_signature.as_ref())
            .map(|k| k.signature)
            .collect(),
    );
    let out = w.run(&t.cfg, Mode::Replay(&t.steps));
    match out.violation {
        Some(v) => {
            println!(
                "violation: monitor={} step={} detail={} signature={}",
                v.monitor, v.step, v.detail, v.signature
            );
            if std::env::var("VERIF_NO_KNOWN").is_err() {
                if let Some(k) = known_match(&load_known(), w.property(), &v) {
                    println!("KNOWN-FINDING: property={} {} [signature={}]", w.property(), k.what, k.signature);
                }
            }
            println!("VIOLATION property={} replay={}", w.property(), path.display());
            EXIT_VIOLATION
        }
        None => {
            println!(
                "replay of {} ran {} steps: no violation (digest {:016x})",
                path.display(),
                out.steps.len(),
                out.digest
            );
            EXIT_OK
        }
    }
}

/// Determinism self-test: every run twice (generate, generate) plus replay, digests compared.
pub fn selftest<W: World>(w: &W, seed: u64, runs: u64) -> Result<u64, String> {
    let errors: Mutex<Vec<String>> = Mutex::new(vec![]);
    let next = AtomicU64::new(0);
    let combined = AtomicU64::new(0);
    std::thread::scope(|sc| {
        for _ in 0..workers() {
            sc.spawn(|| loop {
                let run = next.fetch_add(1, Ordering::Relaxed);
                if run >= runs {
                    break;
                }
                let one = |_: u32| {
                    let mut swarm = Rng::derive(seed, run, "swarm");
                    let cfg = w.gen_cfg(&mut swarm, Tier::Quick, run);
                    let mut rng = Rng::derive(seed, run, "workload");
                    let out = w.run(&cfg, Mode::Generate { rng: &mut rng, tier: Tier::Quick });
                    (cfg, out)
                };
                let (cfg, a) = one(0);
                let (_, b) = one(1);
                let c = w.run(&cfg, Mode::Replay(&a.steps));
                let sa = serde_json::to_string(&a.steps).unwrap();
                let sb = serde_json::to_string(&b.steps).unwrap();
                if a.digest != b.digest || sa != sb || c.digest != a.digest {
                    errors.lock().unwrap().push(format!(
                        "{} run {}: digests {:016x} {:016x} replay {:016x} steps_equal={}",
                        w.property(),
                        run,
                        a.digest,
                        b.digest,
                        c.digest,
                        sa == sb
                    ));
                }
                combined.fetch_xor(prng::mix(run, a.digest), Ordering::Relaxed);
            });
        }
    });
    let e = errors.into_inner().unwrap();
    if e.is_empty() {
        Ok(combined.load(Ordering::Relaxed))
    } else {
        Err(e.join("\n"))
    }
}
