//! Track world (C12): the transaction state cache (`Track`) against a map-overlay model,
//! with a failing I/O-accounting callback (F17) at every call position of a chosen operation.

use crate::simkit::*;
use radix_common::prelude::*;
use radix_engine::track::*;
use radix_engine_interface::prelude::IndexedScryptoValue;
use radix_substate_store_impls::memory_db::InMemorySubstateDatabase;
use radix_substate_store_interface::db_key_mapper::*;
use radix_substate_store_interface::interface::*;
use serde::{Deserialize, Serialize};
use serde_json::json;
use std::collections::{BTreeMap, BTreeSet};

/// Symbolic substate key: partition kinds are fixed per partition number:
/// 0 = fields, 1 = map, 2 = sorted, 3 = map.
#[derive(Clone, Debug, Serialize, Deserialize, PartialEq, Eq, PartialOrd, Ord)]
pub enum SKey {
    Field(u8),
    Map(Hex),
    Sorted(u16, Hex),
}

impl SKey {
    fn to_substate_key(&self) -> SubstateKey {
        match self {
            SKey::Field(f) => SubstateKey::Field(*f),
            SKey::Map(k) => SubstateKey::Map(k.0.clone()),
            SKey::Sorted(s, k) => SubstateKey::Sorted((s.to_be_bytes(), k.0.clone())),
        }
    }
    fn from_substate_key(k: &SubstateKey) -> SKey {
        match k {
            SubstateKey::Field(f) => SKey::Field(*f),
            SubstateKey::Map(k) => SKey::Map(Hex(k.clone())),
            SubstateKey::Sorted((s, k)) => SKey::Sorted(u16::from_be_bytes(*s), Hex(k.clone())),
        }
    }
}

#[derive(Clone, Debug, Serialize, Deserialize)]
pub enum Op {
    CreateNode { node: u8, substates: Vec<(u8, SKey, u64)> },
    Get { node: u8, part: u8, key: SKey },
    Set { node: u8, part: u8, key: SKey, val: u64 },
    Remove { node: u8, part: u8, key: SKey },
    ScanKeys { node: u8, part: u8, limit: u32 },
    Drain { node: u8, part: u8, limit: u32 },
    ScanSorted { node: u8, part: u8, limit: u32 },
    /// What the kernel does for a fee-locking vault: open on unmodified base (read), write,
    /// close with FORCE_WRITE. Skipped unless the substate is `Unmodified` and the node is not new.
    ForceWrite { node: u8, part: u8, key: SKey, val: u64 },
}

#[derive(Clone, Debug, Serialize, Deserialize)]
pub enum Step {
    Op(Op),
    /// F17 enumeration: for every call position j of the operation's I/O callback, one execution
    /// (on a fresh Track that re-executes the prefix) in which the callback fails at j, followed
    /// by revert + finalize; then the operation is executed without failure on the main track.
    FailSweep(Op),
    /// One F17 case on the main track: fail at call j, then revert + finalize (ends the run).
    FailAt { op: Op, j: u32 },
    Revert,
    Finalize,
}

#[derive(Clone, Debug, Serialize, Deserialize)]
pub struct Cfg {
    /// base database content: (node, part, key, value tag)
    pub base: Vec<(u8, u8, SKey, u64)>,
    pub base_nodes: u8,
    pub new_nodes: u8,
    pub n_ops: usize,
    pub key_pool: Vec<(u8, SKey)>,
    pub fail_sweep_permille: u32,
    pub revert_permille: u32,
}

fn node_id(n: u8) -> NodeId {
    let mut b = [0u8; NodeId::LENGTH];
    b[0] = 0x0d; // an arbitrary entity-type byte; the mapper hashes the whole id anyway
    b[NodeId::LENGTH - 1] = n;
    b[5] = n.wrapping_mul(31);
    NodeId(b)
}

fn val(tag: u64) -> IndexedScryptoValue {
    IndexedScryptoValue::from_typed(&tag)
}
fn val_bytes(tag: u64) -> Vec<u8> {
    scrypto_encode(&tag).unwrap()
}

fn db_sort(key: &SKey) -> Vec<u8> {
    SpreadPrefixKeyMapper::to_db_sort_key(&key.to_substate_key()).0
}

/// model key: (node, part, db sort key bytes) so that iteration order is database key order
type MKey = (u8, u8, Vec<u8>);

#[derive(Clone, Default)]
struct TxModel {
    base: BTreeMap<MKey, (SKey, Vec<u8>)>,
    /// the transaction's own view: Some = present, None = removed
    tx: BTreeMap<MKey, Option<(SKey, Vec<u8>)>>,
    new_nodes: BTreeSet<u8>,
    forced: BTreeMap<MKey, Option<(SKey, Vec<u8>)>>,
    /// keys written (set / removed / drained / created) — for the ForceWrite precondition
    written: BTreeSet<MKey>,
    reverted: bool,
}

impl TxModel {
    fn view(&self, k: &MKey) -> Option<&(SKey, Vec<u8>)> {
        match self.tx.get(k) {
            Some(v) => v.as_ref(),
            None => {
                if self.new_nodes.contains(&k.0) {
                    None
                } else {
                    self.base.get(k)
                }
            }
        }
    }
    fn present(&self, node: u8, part: u8) -> Vec<(MKey, (SKey, Vec<u8>))> {
        let mut keys: BTreeSet<MKey> = BTreeSet::new();
        if !self.new_nodes.contains(&node) {
            keys.extend(
                self.base
                    .range((node, part, vec![])..)
                    .take_while(|(k, _)| k.0 == node && k.1 == part)
                    .map(|(k, _)| k.clone()),
            );
        }
        keys.extend(
            self.tx
                .range((node, part, vec![])..)
                .take_while(|(k, _)| k.0 == node && k.1 == part)
                .map(|(k, _)| k.clone()),
        );
        keys.into_iter()
            .filter_map(|k| self.view(&k).cloned().map(|v| (k, v)))
            .collect()
    }
    /// base ⊕ tx as a database-level model
    fn final_state(&self) -> BTreeMap<MKey, Vec<u8>> {
        let mut m: BTreeMap<MKey, Vec<u8>> = self.base.iter().map(|(k, v)| (k.clone(), v.1.clone())).collect();
        for (k, v) in &self.tx {
            match v {
                Some((_, bytes)) => {
                    m.insert(k.clone(), bytes.clone());
                }
                None => {
                    m.remove(k);
                }
            }
        }
        m
    }
}

struct Io {
    calls: u32,
    fail_at: Option<u32>,
    fired: bool,
}

impl Io {
    fn cb(&mut self) -> impl FnMut(IOAccess) -> Result<(), ()> + '_ {
        move |_io| {
            self.calls += 1;
            if Some(self.calls) == self.fail_at {
                self.fired = true;
                Err(())
            } else {
                Ok(())
            }
        }
    }
}

enum OpResult {
    Done,
    /// the callback failed and the error propagated
    Failed,
    Skipped,
}

fn kind_of_part(part: u8) -> u8 {
    match part {
        0 => 0,
        2 => 2,
        _ => 1,
    }
}

/// Executes one operation on the real track and the model, comparing results.
fn exec_op<'s>(
    track: &mut Track<'s, InMemorySubstateDatabase>,
    m: &mut TxModel,
    op: &Op,
    fail_at: Option<u32>,
    stats: &mut Stats,
) -> Result<OpResult, (String, String)> {
    let mut io = Io { calls: 0, fail_at, fired: false };
    let mismatch = |what: &str, detail: String| Err((format!("c12.{}", what), detail));
    macro_rules! propagate {
        ($r:expr, $io:expr) => {
            match $r {
                Ok(v) => {
                    if $io.fired {
                        return mismatch("io_error_swallowed", format!("{:?}: the I/O callback failed at call {} but the operation returned Ok", op, $io.calls));
                    }
                    v
                }
                Err(()) => return Ok(OpResult::Failed),
            }
        };
    }
    match op {
        Op::CreateNode { node, substates } => {
            if m.new_nodes.contains(node) || m.base.keys().any(|k| k.0 == *node) || m.tx.keys().any(|k| k.0 == *node) || m.reverted {
                return Ok(OpResult::Skipped);
            }
            let mut ns: NodeSubstates = BTreeMap::new();
            let mut seen = BTreeSet::new();
            for (part, key, tag) in substates {
                if !seen.insert((*part, key.clone())) {
                    continue;
                }
                ns.entry(PartitionNumber(*part)).or_default().insert(key.to_substate_key(), val(*tag));
            }
            let r = track.create_node(node_id(*node), ns, &mut io.cb());
            propagate!(r, io);
            m.new_nodes.insert(*node);
            let mut seen = BTreeSet::new();
            for (part, key, tag) in substates {
                if !seen.insert((*part, key.clone())) {
                    continue;
                }
                let mk = (*node, *part, db_sort(key));
                m.tx.insert(mk.clone(), Some((key.clone(), val_bytes(*tag))));
                m.written.insert(mk);
            }
            stats.bump("op.create_node");
        }
        Op::Get { node, part, key } => {
            let mk = (*node, *part, db_sort(key));
            let r = track.get_substate(&node_id(*node), PartitionNumber(*part), &key.to_substate_key(), &mut io.cb());
            let got = propagate!(r.map(|o| o.map(|v| v.as_slice().to_vec())), io);
            let exp = m.view(&mk).map(|v| v.1.clone());
            if got != exp {
                return mismatch("read_differs", format!("get({},{},{:?}) returned {:?}, expected {:?}", node, part, key, got.map(hex::encode), exp.map(hex::encode)));
            }
            stats.bump("op.get");
        }
        Op::Set { node, part, key, val: tag } => {
            let mk = (*node, *part, db_sort(key));
            let r = track.set_substate(node_id(*node), PartitionNumber(*part), key.to_substate_key(), val(*tag), &mut io.cb());
            propagate!(r, io);
            m.tx.insert(mk.clone(), Some((key.clone(), val_bytes(*tag))));
            m.written.insert(mk);
            stats.bump("op.set");
        }
        Op::Remove { node, part, key } => {
            if m.reverted {
                return Ok(OpResult::Skipped);
            }
            let mk = (*node, *part, db_sort(key));
            let r = track.remove_substate(&node_id(*node), PartitionNumber(*part), &key.to_substate_key(), &mut io.cb());
            let got = propagate!(r.map(|o| o.map(|v| v.as_slice().to_vec())), io);
            let exp = m.view(&mk).map(|v| v.1.clone());
            if got != exp {
                return mismatch("remove_returned_wrong_value", format!("remove({},{},{:?}) returned {:?}, expected {:?}", node, part, key, got.map(hex::encode), exp.map(hex::encode)));
            }
            m.tx.insert(mk.clone(), None);
            m.written.insert(mk);
            stats.bump("op.remove");
        }
        Op::ScanKeys { node, part, limit } => {
            if kind_of_part(*part) == 0 || m.reverted {
                return Ok(OpResult::Skipped);
            }
            let nid = node_id(*node);
            let r = if kind_of_part(*part) == 1 {
                track.scan_keys::<MapKey, _, _>(&nid, PartitionNumber(*part), *limit, &mut io.cb())
            } else {
                track.scan_keys::<SortedKey, _, _>(&nid, PartitionNumber(*part), *limit, &mut io.cb())
            };
            let got = propagate!(r, io);
            let present = m.present(*node, *part);
            let exp_n = (*limit as usize).min(present.len());
            let got_keys: Vec<SKey> = got.iter().map(SKey::from_substate_key).collect();
            let distinct: BTreeSet<&SKey> = got_keys.iter().collect();
            if distinct.len() != got_keys.len() {
                return mismatch("scan_keys_duplicates", format!("scan_keys({},{},limit {}) returned duplicate keys {:?}", node, part, limit, got_keys));
            }
            for k in &got_keys {
                if !present.iter().any(|(_, (pk, _))| pk == k) {
                    return mismatch("scan_keys_absent_key", format!("scan_keys({},{},limit {}) returned {:?} which is not present", node, part, limit, k));
                }
            }
            if got_keys.len() != exp_n {
                return mismatch("scan_keys_count", format!("scan_keys({},{},limit {}) returned {} keys, {} present entries so {} expected", node, part, limit, got_keys.len(), present.len(), exp_n));
            }
            if *limit as usize == present.len() {
                stats.bump("probe.limit_equals_present");
            }
            stats.bump("op.scan_keys");
        }
        Op::Drain { node, part, limit } => {
            if kind_of_part(*part) == 0 || m.reverted {
                return Ok(OpResult::Skipped);
            }
            let nid = node_id(*node);
            let r = if kind_of_part(*part) == 1 {
                track.drain_substates::<MapKey, _, _>(&nid, PartitionNumber(*part), *limit, &mut io.cb())
            } else {
                track.drain_substates::<SortedKey, _, _>(&nid, PartitionNumber(*part), *limit, &mut io.cb())
            };
            let got = propagate!(r, io);
            let present = m.present(*node, *part);
            let exp_n = (*limit as usize).min(present.len());
            let mut seen = BTreeSet::new();
            let mut from_base = false;
            let mut from_tx = false;
            for (k, v) in &got {
                let sk = SKey::from_substate_key(k);
                if !seen.insert(sk.clone()) {
                    return mismatch("drain_duplicates", format!("drain({},{},limit {}) returned {:?} twice", node, part, limit, sk));
                }
                match present.iter().find(|(_, (pk, _))| *pk == sk) {
                    None => return mismatch("drain_absent_key", format!("drain({},{},limit {}) returned {:?} which is not present", node, part, limit, sk)),
                    Some((mk, (_, bytes))) => {
                        if bytes.as_slice() != v.as_slice() {
                            return mismatch("drain_wrong_value", format!("drain({},{}) returned a wrong value for {:?}", node, part, sk));
                        }
                        if m.tx.contains_key(mk) {
                            from_tx = true;
                        } else {
                            from_base = true;
                        }
                    }
                }
            }
            if got.len() != exp_n {
                return mismatch("drain_count", format!("drain({},{},limit {}) returned {} entries, {} present so {} expected", node, part, limit, got.len(), present.len(), exp_n));
            }
            if from_base && from_tx {
                stats.bump("probe.drain_crossed_tracked_and_database");
            }
            for (k, _) in &got {
                let sk = SKey::from_substate_key(k);
                let mk = (*node, *part, db_sort(&sk));
                m.tx.insert(mk.clone(), None);
                m.written.insert(mk);
            }
            stats.bump("op.drain");
        }
        Op::ScanSorted { node, part, limit } => {
            if kind_of_part(*part) != 2 || m.reverted {
                return Ok(OpResult::Skipped);
            }
            let r = track.scan_sorted_substates(&node_id(*node), PartitionNumber(*part), *limit, &mut io.cb());
            let got = propagate!(r, io);
            let present = m.present(*node, *part);
            let exp: Vec<(SKey, Vec<u8>)> = present.iter().take(*limit as usize).map(|(_, v)| v.clone()).collect();
            let got: Vec<(SKey, Vec<u8>)> = got
                .iter()
                .map(|(k, v)| (SKey::Sorted(u16::from_be_bytes(k.0), Hex(k.1.clone())), v.as_slice().to_vec()))
                .collect();
            if got != exp {
                return mismatch(
                    "scan_sorted_differs",
                    format!("scan_sorted({},{},limit {}) returned {:?}, expected the first entries in database key order {:?}", node, part, limit,
                        got.iter().map(|g| &g.0).collect::<Vec<_>>(), exp.iter().map(|g| &g.0).collect::<Vec<_>>()),
                );
            }
            if present.iter().any(|(k, _)| m.tx.contains_key(k)) && present.iter().any(|(k, _)| !m.tx.contains_key(k)) {
                stats.bump("probe.sorted_scan_merged_tracked_and_database");
            }
            stats.bump("op.scan_sorted");
        }
        Op::ForceWrite { node, part, key, val: tag } => {
            let mk = (*node, *part, db_sort(key));
            if m.new_nodes.contains(node) || m.reverted {
                return Ok(OpResult::Skipped);
            }
            // The kernel only force-writes substates that were unmodified so far; the Track API
            // itself also accepts a force-write of an already written (or already force-written)
            // substate, whose latest force-written value must then be the one a revert keeps.
            let already_written = m.written.contains(&mk);
            if already_written {
                stats.bump("op.force_write_of_already_written_substate");
            }
            let nid = node_id(*node);
            let skey = key.to_substate_key();
            // open (read) ...
            let r = track.get_substate(&nid, PartitionNumber(*part), &skey, &mut io.cb());
            let got = propagate!(r.map(|o| o.map(|v| v.as_slice().to_vec())), io);
            if got != m.view(&mk).map(|v| v.1.clone()) {
                return mismatch("read_differs", format!("get before force write of ({},{},{:?}) differs", node, part, key));
            }
            // ... kernel's UNMODIFIED_BASE precondition ...
            match track.get_tracked_substate_info(&nid, PartitionNumber(*part), &skey) {
                TrackedSubstateInfo::Unmodified => {}
                _ if already_written => {}
                _ => {
                    return mismatch("info_not_unmodified", format!("substate ({},{},{:?}) was never written in this transaction but is not reported Unmodified", node, part, key));
                }
            }
            // ... write through the lock, close with FORCE_WRITE
            let r = track.set_substate(nid, PartitionNumber(*part), skey.clone(), val(*tag), &mut io.cb());
            propagate!(r, io);
            track.force_write(&nid, &PartitionNumber(*part), &skey);
            let v = Some((key.clone(), val_bytes(*tag)));
            m.tx.insert(mk.clone(), v.clone());
            m.forced.insert(mk.clone(), v);
            m.written.insert(mk);
            stats.bump("op.force_write");
        }
    }
    Ok(OpResult::Done)
}

fn do_revert(track: &mut Track<InMemorySubstateDatabase>, m: &mut TxModel, stats: &mut Stats) {
    track.revert_non_force_write_changes();
    m.tx = m.forced.clone();
    m.new_nodes.clear();
    m.reverted = true;
    stats.bump("op.revert");
}

/// finalize + to_state_updates applied to a copy of the base must equal base ⊕ tx.
fn do_finalize(track: Track<InMemorySubstateDatabase>, m: &TxModel, stats: &mut Stats) -> Result<u64, (String, String)> {
    let (tracked, _db) = match track.finalize() {
        Ok(x) => x,
        Err(e) => return Err(("c12.finalize_failed".into(), format!("{:?}", e))),
    };
    let (new_nodes, updates) = tracked.to_state_updates();
    let du = updates.create_database_updates();
    // database-level model of the base
    let mut dbm: crate::store::Model = BTreeMap::new();
    let to_db = |k: &MKey| -> crate::store::Key {
        let pk = SpreadPrefixKeyMapper::to_db_partition_key(&node_id(k.0), PartitionNumber(k.1));
        (pk.node_key, pk.partition_num, k.2.clone())
    };
    for (k, v) in &m.base {
        dbm.insert(to_db(k), v.1.clone());
    }
    crate::store::apply_database_updates(&mut dbm, &du);
    let exp: crate::store::Model = m.final_state().iter().map(|(k, v)| (to_db(k), v.clone())).collect();
    if dbm != exp {
        let missing: Vec<_> = exp.iter().filter(|(k, v)| dbm.get(*k) != Some(*v)).map(|(k, _)| format!("{}:{}:{}", hex::encode(&k.0[..4]), k.1, hex::encode(&k.2))).take(4).collect();
        let extra: Vec<_> = dbm.iter().filter(|(k, v)| exp.get(*k) != Some(*v)).map(|(k, _)| format!("{}:{}:{}", hex::encode(&k.0[..4]), k.1, hex::encode(&k.2))).take(4).collect();
        let what = if m.reverted { "revert_kept_more_than_force_writes" } else { "state_updates_differ" };
        return Err((
            format!("c12.{}", what),
            format!("applying the produced state updates to the base gives a database that differs from base+transaction view ({}): expected-but-wrong/missing {:?}, present-but-unexpected {:?}", if m.reverted { "after revert: only force-written substates may change" } else { "no revert" }, missing, extra),
        ));
    }
    let exp_new: BTreeSet<NodeId> = m.new_nodes.iter().map(|n| node_id(*n)).collect();
    let got_new: BTreeSet<NodeId> = new_nodes.into_iter().collect();
    if exp_new != got_new {
        return Err(("c12.new_nodes_differ".into(), format!("new nodes reported {:?}, expected {:?}", got_new.len(), exp_new.len())));
    }
    stats.bump(if m.reverted { "finalize.after_revert" } else { "finalize.success" });
    Ok(crate::store::model_digest(&dbm))
}

pub struct C12;

fn gen_key(rng: &mut Rng, part: u8) -> SKey {
    match kind_of_part(part) {
        0 => SKey::Field(rng.below(3) as u8),
        1 => SKey::Map(Hex(vec![rng.below(6) as u8])),
        _ => SKey::Sorted(rng.below(3) as u16 * 7, Hex(vec![rng.below(4) as u8])),
    }
}

fn gen_op(rng: &mut Rng, cfg: &Cfg, m: &TxModel) -> Op {
    let total_nodes = cfg.base_nodes + cfg.new_nodes;
    let node = rng.below(total_nodes as u64) as u8;
    let part = rng.below(4) as u8;
    let (part, key) = if rng.chance(3, 4) && !cfg.key_pool.is_empty() {
        rng.pick(&cfg.key_pool).clone()
    } else {
        (part, gen_key(rng, part))
    };
    let present = m.present(node, part).len() as u32;
    let limit = *rng.pick(&[0u32, 1, present.saturating_sub(1), present, present + 1, 2, 3, u32::MAX]);
    match rng.below(100) {
        0..=17 => Op::Get { node, part, key },
        18..=37 => Op::Set { node, part, key, val: rng.below(1000) },
        38..=49 => Op::Remove { node, part, key },
        50..=59 => Op::ScanKeys { node, part: *rng.pick(&[1u8, 2, 3]), limit },
        60..=71 => Op::Drain { node, part: *rng.pick(&[1u8, 3, 2]), limit },
        72..=83 => Op::ScanSorted { node, part: 2, limit },
        84..=91 => Op::ForceWrite { node: rng.below(cfg.base_nodes.max(1) as u64) as u8, part, key, val: 5000 + rng.below(1000) },
        _ => {
            let n = cfg.base_nodes + rng.below(cfg.new_nodes.max(1) as u64) as u8;
            let cnt = rng.range(0, 5);
            let substates = (0..cnt)
                .map(|_| {
                    let p = rng.below(4) as u8;
                    (p, gen_key(rng, p), rng.below(1000))
                })
                .collect();
            Op::CreateNode { node: n, substates }
        }
    }
}

fn build_base(cfg: &Cfg) -> (InMemorySubstateDatabase, TxModel) {
    let mut db = InMemorySubstateDatabase::standard();
    let mut m = TxModel::default();
    let mut updates = DatabaseUpdates::default();
    for (node, part, key, tag) in &cfg.base {
        let pk = SpreadPrefixKeyMapper::to_db_partition_key(&node_id(*node), PartitionNumber(*part));
        let sk = SpreadPrefixKeyMapper::to_db_sort_key(&key.to_substate_key());
        m.base.insert((*node, *part, sk.0.clone()), (key.clone(), val_bytes(*tag)));
        let nu = updates.node_updates.entry(pk.node_key).or_insert_with(|| NodeDatabaseUpdates { partition_updates: IndexMap::default() });
        let pu = nu
            .partition_updates
            .entry(pk.partition_num)
            .or_insert_with(|| PartitionDatabaseUpdates::Delta { substate_updates: IndexMap::default() });
        if let PartitionDatabaseUpdates::Delta { substate_updates } = pu {
            substate_updates.insert(sk, DatabaseUpdate::Set(val_bytes(*tag)));
        }
    }
    db.commit(&updates);
    (db, m)
}

impl World for C12 {
    type Step = Step;
    type Cfg = Cfg;
    fn property(&self) -> &'static str {
        "C12"
    }
    fn world(&self) -> &'static str {
        "track"
    }
    fn rule(&self) -> String {
        "Per run: random base database (field, map and sorted partitions over a few nodes; small key pools so that tracked and database entries interleave in key order) and a 'transaction' of 5..60 operations (create_node, get, set, remove, scan_keys, drain, scan_sorted with limits 0, 1, present-1, present, present+1, u32::MAX, force-write sequences), optionally revert, then finalize. Every return value is compared with a map-overlay model; the produced state updates applied to a copy of the base must equal base+view (after revert: base + force-written values). F17: for sampled operations the failing position j of the I/O callback is ENUMERATED over every call the operation makes (each on a fresh Track re-executing the prefix), followed by revert+finalize. evaluations = Track operations executed; distinct = distinct (final database digest, outcome kind, fault position).".into()
    }
    fn assumptions(&self) -> Vec<String> {
        vec![
            "Preconditions the trait documents as undefined are respected by construction: no duplicate node creation, no writes to new nodes that were never created, key kind fixed per partition, force_write only on a tracked, never-written substate of a non-new node (the kernel's UNMODIFIED_BASE rule).".into(),
            "After a revert only finalize (and reads/sets of force-written substates) are issued, as the executor does; reads of reverted write-only entries are outside the property.".into(),
            "SpreadPrefixKeyMapper is trusted for the model's key order (it is C16's subject).".into(),
            "After an injected callback failure the failing operation's own effect is unspecified; the sequel is revert + finalize whose result must be exactly the force-written set.".into(),
        ]
    }
    fn real_vs_stub(&self) -> serde_json::Value {
        json!({"real": ["radix_engine::track::Track (all CommitableSubstateStore operations, revert_non_force_write_changes, finalize)", "TrackedSubstates::to_state_updates", "OverlayingResultIterator", "SpreadPrefixKeyMapper", "InMemorySubstateDatabase"],
               "stub_or_ours": ["operation generator", "map-overlay model", "failing on_io_access callback"]})
    }
    fn probes(&self) -> Vec<&'static str> {
        vec![
            "probe.drain_crossed_tracked_and_database",
            "probe.sorted_scan_merged_tracked_and_database",
            "probe.limit_equals_present",
            "fault.io_callback_failure_fired",
            "finalize.after_revert",
            "finalize.success",
            "op.force_write",
            "fail_sweeps",
        ]
    }
    fn budget(&self, tier: Tier) -> (u64, u64) {
        match tier {
            Tier::Quick => (1_500_000, 40),
            Tier::Thorough => (8_000_000, 900),
        }
    }
    fn gen_cfg(&self, rng: &mut Rng, _tier: Tier, _run: u64) -> Cfg {
        let base_nodes = rng.range(1, 3) as u8;
        let new_nodes = rng.range(0, 2) as u8;
        let n_base = rng.range(0, 14);
        let mut base = vec![];
        let mut seen = BTreeSet::new();
        for _ in 0..n_base {
            let node = rng.below(base_nodes as u64) as u8;
            let part = rng.below(4) as u8;
            let key = gen_key(rng, part);
            if seen.insert((node, part, key.clone())) {
                base.push((node, part, key, 100_000 + rng.below(1000)));
            }
        }
        let key_pool = (0..rng.range(1, 6))
            .map(|_| {
                let p = rng.below(4) as u8;
                (p, gen_key(rng, p))
            })
            .collect();
        Cfg {
            base,
            base_nodes,
            new_nodes,
            n_ops: rng.range(5, 60) as usize,
            key_pool,
            fail_sweep_permille: *rng.pick(&[0u32, 0, 50, 150]),
            revert_permille: *rng.pick(&[0u32, 300, 600]),
        }
    }

    fn run(&self, cfg: &Cfg, mode: Mode<Step>) -> RunOutcome<Step> {
        let mut steps = Steps::new(mode);
        let mut stats = Stats::default();
        let (db, base_model) = build_base(cfg);
        let mut track = Some(Track::new(&db));
        let mut m = base_model.clone();
        let mut executed: Vec<Op> = vec![]; // ops executed on the main track (for sweeps)
        let mut violation: Option<Violation> = None;
        let mut digest = 0u64;
        let mut n = 0usize;
        let mut finalized = false;
        let will_revert_at: Option<usize> = None;
        let _ = will_revert_at;
        loop {
            let step = steps.next(|rng| {
                if finalized {
                    return None;
                }
                n += 1;
                if n > cfg.n_ops {
                    if !m.reverted && rng.below(1000) < cfg.revert_permille as u64 {
                        return Some(Step::Revert);
                    }
                    return Some(Step::Finalize);
                }
                let op = gen_op(rng, cfg, &m);
                if !m.reverted && rng.below(1000) < cfg.fail_sweep_permille as u64 {
                    Some(Step::FailSweep(op))
                } else {
                    Some(Step::Op(op))
                }
            });
            let Some(step) = step else { break };
            let ix = steps.index();
            if finalized {
                break;
            }
            let mk_violation = |(monitor, detail): (String, String)| Violation {
                signature: monitor.clone(),
                monitor,
                step: ix,
                detail,
            };
            match step {
                Step::Op(op) => {
                    let t = track.as_mut().unwrap();
                    stats.evaluations += 1;
                    let r = catch_quiet(|| {
                        let mut st = Stats::default();
                        let r = exec_op(t, &mut m, &op, None, &mut st);
                        (r, st)
                    });
                    match r {
                        Err(p) => {
                            violation = Some(mk_violation(("c12.op_panicked".into(), format!("{:?} panicked: {}", op, p))));
                            break;
                        }
                        Ok((Err(e), _)) => {
                            violation = Some(mk_violation(e));
                            break;
                        }
                        Ok((Ok(res), st)) => {
                            stats.merge(&st);
                            if matches!(res, OpResult::Done) {
                                executed.push(op);
                            }
                        }
                    }
                }
                Step::FailSweep(op) => {
                    stats.bump("fail_sweeps");
                    // enumerate j = 1.. on fresh tracks re-executing the prefix
                    let mut j = 1u32;
                    loop {
                        let mut t2 = Track::new(&db);
                        let mut m2 = base_model.clone();
                        let mut scratch = Stats::default();
                        for prev in &executed {
                            let _ = exec_op(&mut t2, &mut m2, prev, None, &mut scratch);
                        }
                        stats.evaluations += 1;
                        let r = catch_quiet(|| {
                            let mut st = Stats::default();
                            let r = exec_op(&mut t2, &mut m2, &op, Some(j), &mut st);
                            (r, st)
                        });
                        match r {
                            Err(p) => {
                                violation = Some(mk_violation(("c12.op_panicked_under_io_failure".into(), format!("{:?} with callback failing at call {} panicked: {}", op, j, p))));
                                break;
                            }
                            Ok((Err(e), _)) => {
                                violation = Some(mk_violation(e));
                                break;
                            }
                            Ok((Ok(OpResult::Failed), _)) => {
                                stats.bump("fault.io_callback_failure_fired");
                                let r = catch_quiet(|| {
                                    let mut st = Stats::default();
                                    do_revert(&mut t2, &mut m2, &mut st);
                                    do_finalize(t2, &m2, &mut st)
                                });
                                match r {
                                    Err(p) => {
                                        violation = Some(mk_violation(("c12.revert_panicked_after_io_failure".into(), format!("revert+finalize after {:?} failed at call {}: {}", op, j, p))));
                                    }
                                    Ok(Err((mon, det))) => {
                                        violation = Some(mk_violation((mon, format!("after {:?} failed at callback call {}: {}", op, j, det))));
                                    }
                                    Ok(Ok(d)) => {
                                        stats.distinct.insert(prng::mix(d, prng::mix(3, j as u64)));
                                    }
                                }
                                if violation.is_some() {
                                    break;
                                }
                                j += 1;
                            }
                            Ok((Ok(_), _)) => break, // the op makes fewer than j calls: sweep complete
                        }
                        if j > 400 {
                            break;
                        }
                    }
                    if violation.is_some() {
                        // point the violation at a single-case replay form
                        break;
                    }
                    // now the operation itself, without failure, on the main track
                    let t = track.as_mut().unwrap();
                    stats.evaluations += 1;
                    let r = catch_quiet(|| {
                        let mut st = Stats::default();
                        let r = exec_op(t, &mut m, &op, None, &mut st);
                        (r, st)
                    });
                    match r {
                        Err(p) => {
                            violation = Some(mk_violation(("c12.op_panicked".into(), format!("{:?} panicked: {}", op, p))));
                            break;
                        }
                        Ok((Err(e), _)) => {
                            violation = Some(mk_violation(e));
                            break;
                        }
                        Ok((Ok(res), st)) => {
                            stats.merge(&st);
                            if matches!(res, OpResult::Done) {
                                executed.push(op);
                            }
                        }
                    }
                }
                Step::FailAt { op, j } => {
                    let t = track.as_mut().unwrap();
                    stats.evaluations += 1;
                    let r = catch_quiet(|| {
                        let mut st = Stats::default();
                        exec_op(t, &mut m, &op, Some(j), &mut st)
                    });
                    match r {
                        Err(p) => {
                            violation = Some(mk_violation(("c12.op_panicked_under_io_failure".into(), format!("{:?} with callback failing at call {} panicked: {}", op, j, p))));
                            break;
                        }
                        Ok(Err(e)) => {
                            violation = Some(mk_violation(e));
                            break;
                        }
                        Ok(Ok(OpResult::Failed)) => {
                            stats.bump("fault.io_callback_failure_fired");
                            let t = track.take().unwrap();
                            let mut t = t;
                            let r = catch_quiet(|| {
                                let mut st = Stats::default();
                                do_revert(&mut t, &mut m, &mut st);
                                do_finalize(t, &m, &mut st)
                            });
                            finalized = true;
                            match r {
                                Err(p) => violation = Some(mk_violation(("c12.revert_panicked_after_io_failure".into(), p))),
                                Ok(Err((mon, det))) => violation = Some(mk_violation((mon, format!("after {:?} failed at callback call {}: {}", op, j, det)))),
                                Ok(Ok(d)) => digest = prng::mix(digest, d),
                            }
                            if violation.is_some() {
                                break;
                            }
                        }
                        Ok(Ok(_)) => {}
                    }
                }
                Step::Revert => {
                    if !m.reverted {
                        let t = track.as_mut().unwrap();
                        let r = catch_quiet(|| {
                            let mut st = Stats::default();
                            do_revert(t, &mut m, &mut st);
                            st
                        });
                        stats.evaluations += 1;
                        match r {
                            Err(p) => {
                                violation = Some(mk_violation(("c12.revert_panicked".into(), p)));
                                break;
                            }
                            Ok(st) => stats.merge(&st),
                        }
                    }
                }
                Step::Finalize => {
                    let t = track.take().unwrap();
                    stats.evaluations += 1;
                    let reverted = m.reverted;
                    let r = catch_quiet(|| {
                        let mut st = Stats::default();
                        let r = do_finalize(t, &m, &mut st);
                        (r, st)
                    });
                    finalized = true;
                    match r {
                        Err(p) => {
                            violation = Some(mk_violation(("c12.finalize_panicked".into(), p)));
                            break;
                        }
                        Ok((Err(e), _)) => {
                            violation = Some(mk_violation(e));
                            break;
                        }
                        Ok((Ok(d), st)) => {
                            stats.merge(&st);
                            digest = prng::mix(digest, d);
                            stats.distinct.insert(prng::mix(d, reverted as u64));
                        }
                    }
                }
            }
        }
        RunOutcome {
            steps: steps.taken,
            violation,
            stats,
            digest,
        }
    }

    fn simplify_step(&self, step: &Step) -> Vec<Step> {
        match step {
            Step::FailSweep(op) => {
                let mut v: Vec<Step> = (1..=12u32).map(|j| Step::FailAt { op: op.clone(), j }).collect();
                v.push(Step::Op(op.clone()));
                v
            }
            Step::Op(Op::CreateNode { node, substates }) if substates.len() > 1 => (0..substates.len())
                .map(|i| {
                    let mut s = substates.clone();
                    s.remove(i);
                    Step::Op(Op::CreateNode { node: *node, substates: s })
                })
                .collect(),
            _ => vec![],
        }
    }

    fn simplify_cfg(&self, cfg: &Cfg) -> Vec<Cfg> {
        (0..cfg.base.len())
            .map(|i| {
                let mut c = cfg.clone();
                c.base.remove(i);
                c
            })
            .collect()
    }
}
