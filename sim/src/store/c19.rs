//! C19 — a crash during a Merkle-store commit leaves a consistent store.
//! Fault enumeration: for each sampled commit, the process is stopped before every physical
//! write the commit issues (hook H3), the crash image is reopened and examined.

use super::refsmt;
use super::*;
use crate::simkit::*;
use radix_substate_store_impls::rocks_db_with_merkle_tree::{
    verif_hooks, Options, RocksDBWithMerkleTreeSubstateStore,
};
use radix_substate_store_impls::state_tree::list_substate_hashes_at_version;
use serde_json::json;
use std::cell::{Cell, RefCell};
use std::path::{Path, PathBuf};
use std::rc::Rc;
use std::sync::atomic::{AtomicU64, Ordering};

#[derive(Clone, Debug, Serialize, Deserialize)]
pub enum Step {
    /// A commit carried out to completion (prefix history).
    Commit(Commit),
    /// Fault enumeration: crash at every write k = 1..=W of this commit (each on a fresh copy of
    /// the pre-state), then carry the commit out on the main store.
    SweepCommit(Commit),
    /// One crash case (what a minimised replay contains).
    CrashCommit { commit: Commit, k: u32 },
}

#[derive(Clone, Debug, Serialize, Deserialize)]
pub struct Cfg {
    pub universe: Universe,
    pub pruning: bool,
    /// false: in-process stop (unwind + byte copy of the live directory);
    /// true: the commit runs in a child process that `_exit`s inside the hook.
    pub child_process: bool,
    pub prefix_commits: usize,
    pub sweeps: usize,
    pub node_pool: Vec<Hex>,
    /// largest number of stop positions examined per commit (part of the configuration so that a
    /// replay examines what the generating run examined)
    #[serde(default = "default_sweep_cap")]
    pub sweep_cap: u32,
}

fn default_sweep_cap() -> u32 {
    48
}

pub struct C19;

static DIR_SEQ: AtomicU64 = AtomicU64::new(0);

fn fresh_dir(tag: &str) -> PathBuf {
    let n = DIR_SEQ.fetch_add(1, Ordering::Relaxed);
    scratch_root().join(format!("c19-{}-{}", tag, n))
}

fn copy_dir(from: &Path, to: &Path) {
    let _ = std::fs::remove_dir_all(to);
    std::fs::create_dir_all(to).expect("mkdir");
    for e in std::fs::read_dir(from).expect("read_dir") {
        let e = e.expect("dirent");
        let name = e.file_name();
        if name == "LOCK" {
            continue;
        }
        if e.file_type().map(|t| t.is_file()).unwrap_or(false) {
            std::fs::copy(e.path(), to.join(&name)).expect("copy");
        }
    }
}

pub fn open(dir: &Path, pruning: bool) -> RocksDBWithMerkleTreeSubstateStore {
    let mut options = Options::default();
    options.create_if_missing(true);
    options.create_missing_column_families(true);
    // keep DB::open from spawning 16 file-opening threads each time (thousands of opens per run)
    options.set_max_file_opening_threads(1);
    RocksDBWithMerkleTreeSubstateStore::with_options(&options, dir.to_path_buf(), pruning)
}

struct CrashSignal;

/// Runs `commit` on `store`, stopping (by unwinding) immediately before the k-th physical write.
/// Returns (writes seen, kind of the write stopped at or None if the commit completed).
fn commit_with_crash_at(
    store: &mut RocksDBWithMerkleTreeSubstateStore,
    du: &DatabaseUpdates,
    k: Option<u32>,
) -> (Vec<&'static str>, Option<&'static str>) {
    let seen: Rc<RefCell<Vec<&'static str>>> = Rc::new(RefCell::new(vec![]));
    let stopped: Rc<Cell<Option<&'static str>>> = Rc::new(Cell::new(None));
    {
        let seen = seen.clone();
        let stopped = stopped.clone();
        verif_hooks::set_crash_point_callback(Some(Box::new(move |kind| {
            let n = seen.borrow().len() as u32 + 1;
            if Some(n) == k {
                stopped.set(Some(kind));
                std::panic::panic_any(CrashSignal);
            }
            seen.borrow_mut().push(kind);
        })));
    }
    let r = catch_quiet(|| store.commit(du));
    verif_hooks::set_crash_point_callback(None);
    if r.is_err() && stopped.get().is_none() {
        // a genuine panic inside commit (not our signal): surface it to the caller as a harness-visible panic
        panic!("commit panicked by itself: {:?}", r.err());
    }
    let seen = seen.borrow().clone();
    (seen, stopped.get())
}

struct Expect<'a> {
    pre: &'a Model,
    post: &'a Model,
    pre_version: u64,
    pre_root: refsmt::H32,
}

fn examine(
    dir: &Path,
    pruning: bool,
    e: &Expect,
    commit: &DatabaseUpdates,
    stats: &mut Stats,
) -> Result<&'static str, (String, String)> {
    let mut store = open(dir, pruning);
    let version = store.get_current_version();
    let root = store.get_current_root_hash().0;
    let actual = dump(&store);
    let post_root = refsmt::root_of(e.post);
    let which = if &actual == e.pre && (e.pre != e.post || version == e.pre_version) {
        "pre"
    } else if &actual == e.post {
        "post"
    } else {
        let only_pre = e.pre.iter().filter(|(k, v)| actual.get(*k) != Some(*v)).count();
        let only_post = e.post.iter().filter(|(k, v)| actual.get(*k) != Some(*v)).count();
        return Err((
            "c19.mixture".into(),
            format!(
                "reopened store holds neither the pre-commit nor the post-commit substates: {} substates present, {} of pre missing/changed, {} of post missing/changed; recorded version {} (pre {})",
                actual.len(), only_pre, only_post, version, e.pre_version
            ),
        ));
    };
    let (exp_version, exp_root) = if which == "pre" {
        (e.pre_version, e.pre_root)
    } else {
        (e.pre_version + 1, post_root)
    };
    if version != exp_version {
        return Err((
            "c19.version_mismatch".into(),
            format!("substates are the {}-commit state but recorded version is {} (expected {})", which, version, exp_version),
        ));
    }
    if root != exp_root || root != refsmt::root_of(&actual) {
        return Err((
            "c19.root_mismatch".into(),
            format!(
                "substates are the {}-commit state but recorded root {} is not the commitment {} of the substates held",
                which,
                hex::encode(root),
                hex::encode(refsmt::root_of(&actual))
            ),
        ));
    }
    // The tree at the recorded version must be fully readable and list exactly the substates held.
    if version > 0 {
        let listed = catch_quiet(|| list_substate_hashes_at_version(&store, version));
        match listed {
            Err(p) => {
                return Err((
                    "c19.tree_unreadable".into(),
                    format!("state tree at recorded version {} cannot be traversed: {}", version, p),
                ))
            }
            Ok(l) => {
                let mut got: BTreeMap<Key, refsmt::H32> = BTreeMap::new();
                for (pk, by_sort) in l {
                    for (sk, hsh) in by_sort {
                        got.insert((pk.node_key.clone(), pk.partition_num, sk.0), hsh.0);
                    }
                }
                if got != refsmt::value_hashes(&actual) {
                    return Err((
                        "c19.tree_lists_other_substates".into(),
                        format!("tree at version {} lists {} substate hashes, store holds {}", version, got.len(), actual.len()),
                    ));
                }
            }
        }
    }
    // Recovery: after the faults stop the interrupted commit can be carried out.
    if which == "pre" {
        let r = catch_quiet(|| store.commit(commit));
        if let Err(p) = r {
            return Err(("c19.recovery_panicked".into(), format!("re-commit after reopen panicked: {}", p)));
        }
    }
    let after = dump(&store);
    if &after != e.post || store.get_current_root_hash().0 != post_root {
        return Err((
            "c19.recovery_wrong".into(),
            "after reopening and completing the commit the store is not the post-commit state".into(),
        ));
    }
    stats.bump(if which == "pre" { "reopened_as_pre" } else { "reopened_as_post" });
    Ok(which)
}

/// One crash case on a fresh copy of `pre_dir`.
fn crash_case(
    cfg: &Cfg,
    pre_dir: &Path,
    e: &Expect,
    commit: &Commit,
    k: u32,
    stats: &mut Stats,
) -> Result<(), (String, String, String)> {
    let du = commit.to_database_updates();
    let work = fresh_dir("work");
    copy_dir(pre_dir, &work);
    let image = fresh_dir("image");
    let (seen, stopped): (Vec<String>, Option<String>);
    if cfg.child_process {
        // real process death inside the hook
        let commit_file = work.with_extension("commit.json");
        std::fs::write(&commit_file, serde_json::to_string(commit).unwrap()).unwrap();
        let exe = std::env::current_exe().unwrap();
        let out = std::process::Command::new(exe)
            .arg("child-commit")
            .arg(&work)
            .arg(if cfg.pruning { "1" } else { "0" })
            .arg(&commit_file)
            .arg(k.to_string())
            .output()
            .expect("spawn child");
        let _ = std::fs::remove_file(&commit_file);
        let text = String::from_utf8_lossy(&out.stdout).to_string();
        let kinds: Vec<String> = text
            .lines()
            .filter_map(|l| l.strip_prefix("W "))
            .map(|s| s.to_string())
            .collect();
        let code = out.status.code();
        if code == Some(137) {
            stopped = kinds.last().cloned();
            seen = kinds[..kinds.len().saturating_sub(1)].to_vec();
        } else if code == Some(0) {
            stopped = None;
            seen = kinds;
        } else {
            let _ = std::fs::remove_dir_all(&work);
            panic!("child-commit failed: {:?} {}", code, String::from_utf8_lossy(&out.stderr));
        }
        std::fs::rename(&work, &image).expect("rename");
        stats.bump("fault.process_kill_fired");
    } else {
        let mut store = open(&work, cfg.pruning);
        let (s, st) = commit_with_crash_at(&mut store, &du, Some(k));
        seen = s.iter().map(|x| x.to_string()).collect();
        stopped = st.map(|x| x.to_string());
        // crash image: byte copy of the live directory while the handle is still open
        copy_dir(&work, &image);
        drop(store);
        let _ = std::fs::remove_dir_all(&work);
        stats.bump("fault.inprocess_stop_fired");
    }
    stats.evaluations += 1;
    if let Some(kind) = &stopped {
        stats.bump(&format!("stopped_before.{}", kind));
    } else {
        stats.bump("stop_position_beyond_last_write");
    }
    let r = examine(&image, cfg.pruning, e, &du, stats);
    let _ = std::fs::remove_dir_all(&image);
    match r {
        Ok(which) => {
            stats.distinct.insert(prng::mix(
                prng::mix(model_digest(e.pre), model_digest(e.post)),
                prng::mix(k as u64, which.len() as u64),
            ));
            Ok(())
        }
        Err((monitor, detail)) => {
            let direct_substate_writes = seen
                .iter()
                .filter(|k| k.as_str() != "write_batch")
                .count();
            let sig = format!(
                "{}:stopped_before={}:after_batch={}:direct_writes_before_batch={}",
                monitor,
                stopped.clone().unwrap_or_else(|| "none".into()),
                seen.iter().any(|k| k == "write_batch"),
                if seen.iter().any(|k| k == "write_batch") { "n/a" } else if direct_substate_writes > 0 { "yes" } else { "no" }
            );
            Err((
                monitor,
                format!("stop before write #{} ({:?}) after {:?}: {}", k, stopped, seen, detail),
                sig,
            ))
        }
    }
}

pub fn child_commit(args: &[String]) -> i32 {
    // verif-sim child-commit <dir> <pruning> <commit.json> <k>
    let dir = PathBuf::from(&args[0]);
    let pruning = args[1] == "1";
    let commit: Commit = serde_json::from_str(&std::fs::read_to_string(&args[2]).unwrap()).unwrap();
    let k: u32 = args[3].parse().unwrap();
    let mut store = open(&dir, pruning);
    let n = Rc::new(Cell::new(0u32));
    {
        let n = n.clone();
        verif_hooks::set_crash_point_callback(Some(Box::new(move |kind| {
            n.set(n.get() + 1);
            // the kind is printed unbuffered through a raw write so that it survives _exit
            let line = format!("W {}\n", kind);
            unsafe {
                libc::write(1, line.as_ptr() as *const libc::c_void, line.len());
            }
            if n.get() == k {
                unsafe { libc::_exit(137) };
            }
        })));
    }
    store.commit(&commit.to_database_updates());
    verif_hooks::set_crash_point_callback(None);
    // A completed commit in the child still ends without a clean close.
    unsafe { libc::_exit(0) };
}

impl World for C19 {
    type Step = Step;
    type Cfg = Cfg;

    fn property(&self) -> &'static str {
        "C19"
    }
    fn world(&self) -> &'static str {
        "store"
    }
    fn level(&self) -> &'static str {
        "fault_enumeration"
    }
    fn rule(&self) -> String {
        "Per run: random key universe, a committed prefix, then sampled commits (1..40 changes, deltas/deletes/resets, pruning on or off). For each sampled commit the stop position k is ENUMERATED over every physical write the commit issues (1..=W, W discovered by a dry run through hook H3) plus the no-stop case; each case = fresh copy of the pre-state directory, commit stopped before write k, crash image reopened and examined. evaluations = crash cases executed. A case is non-trivial if the commit changes at least one substate; distinct = distinct (pre-state digest, post-state digest, k, reopened-as) tuples.".into()
    }
    fn assumptions(&self) -> Vec<String> {
        vec![
            "RocksDB itself is real and not simulated below its API: a stop is a process stop between two API writes (torn sectors / lost un-synced OS buffers after power loss are out of scope; the property speaks of a stopping process).".into(),
            "In-process mode models the stop by unwinding out of commit and byte-copying the live directory (minus LOCK) before the handle is dropped; child-process mode (thorough tier) kills a real child with _exit(137) inside the hook.".into(),
            "Fault positions are enumerated completely only for the sampled commits.".into(),
            "Leftover unreachable tree nodes after an interrupted pruning are allowed (not described by the property).".into(),
        ]
    }
    fn real_vs_stub(&self) -> serde_json::Value {
        json!({
            "real": ["RocksDBWithMerkleTreeSubstateStore (commit, reads, listing)", "3-tier JMT put_at_next_version / list_substate_hashes_at_version", "RocksDB 10.4 (librocksdb-sys)"],
            "stub_or_ours": ["commit-history generator", "BTreeMap model", "from-scratch sparse-Merkle reference (blake2 crate)", "crash controller (hook H3 callback, directory copy / child process kill)"]
        })
    }
    fn probes(&self) -> Vec<&'static str> {
        vec![
            "reopened_as_pre",
            "reopened_as_post",
            "stopped_before.write_batch",
            "stopped_before.delete_cf",
            "sweep.with_reset",
            "sweep.bulk_commit_256_plus",
            "sweep.pruning_on",
            "sweep.pruning_off",
            "stop_position_beyond_last_write",
        ]
    }
    fn budget(&self, tier: Tier) -> (u64, u64) {
        match tier {
            Tier::Quick => (2500, 40),
            Tier::Thorough => (4000, 900),
        }
    }
    fn gen_cfg(&self, rng: &mut Rng, tier: Tier, _run: u64) -> Cfg {
        let universe = Universe::draw(rng);
        let node_pool = universe.node_pool(rng).into_iter().map(Hex).collect();
        Cfg {
            universe,
            pruning: rng.chance(1, 2),
            child_process: tier == Tier::Thorough && rng.chance(1, 2),
            prefix_commits: rng.range(0, 4) as usize,
            sweeps: rng.range(1, 2) as usize,
            node_pool,
            sweep_cap: if tier == Tier::Thorough { 192 } else { 48 },
        }
    }

    fn run(&self, cfg: &Cfg, mode: Mode<Step>) -> RunOutcome<Step> {
        let mut steps = Steps::new(mode);
        let mut stats = Stats::default();
        let mut digest = 0u64;
        let nodes: Vec<Vec<u8>> = cfg.node_pool.iter().map(|h| h.0.clone()).collect();
        let main = fresh_dir("main");
        let _ = std::fs::remove_dir_all(&main);
        let mut store = Some(open(&main, cfg.pruning));
        let mut model = Model::new();
        let mut version = 0u64;
        let mut root = refsmt::ZERO;
        let mut violation: Option<Violation> = None;
        let mut n = 0usize;
        let total = cfg.prefix_commits + cfg.sweeps;
        loop {
            let step = steps.next(|rng| {
                if n >= total {
                    return None;
                }
                let mut c = cfg.universe.gen_commit(rng, &nodes, &model, false);
                // commit size is a knob correctness must not depend on: sometimes a bulk commit
                if rng.chance(1, 6) {
                    let size = *rng.pick(&[64usize, 255, 256, 257, 300, 600, 1100]);
                    if let Some(b) = cfg.universe.gen_bulk_commit(rng, &nodes, &model, size) {
                        c = b;
                    }
                }
                Some(if n < cfg.prefix_commits { Step::Commit(c) } else { Step::SweepCommit(c) })
            });
            n += 1;
            let Some(step) = step else { break };
            let ix = steps.index();
            let (commit, ks): (Commit, Option<Vec<u32>>) = match step {
                Step::Commit(c) => (c, None),
                Step::SweepCommit(c) => (c, Some(vec![])),
                Step::CrashCommit { commit, k } => (commit, Some(vec![k])),
            };
            if commit.is_empty() {
                continue;
            }
            let du = commit.to_database_updates();
            let mut post = model.clone();
            commit.apply_to(&mut post);
            if let Some(ks) = ks {
                // quiesce the main store: its directory is the pre-state
                drop(store.take());
                let sweep_all = ks.is_empty();
                let ks: Vec<u32> = if sweep_all {
                    // dry run to count the physical writes
                    let dry = fresh_dir("dry");
                    copy_dir(&main, &dry);
                    let mut s = open(&dry, cfg.pruning);
                    let (seen, _) = commit_with_crash_at(&mut s, &du, None);
                    drop(s);
                    let _ = std::fs::remove_dir_all(&dry);
                    stats.add("writes_per_commit_total", seen.len() as u64);
                    stats.bump("sweeps");
                    stats.bump(if cfg.pruning { "sweep.pruning_on" } else { "sweep.pruning_off" });
                    if commit.nodes.iter().any(|n| n.parts.iter().any(|p| p.reset)) {
                        stats.bump("sweep.with_reset");
                    }
                    if commit.n_changes() >= 256 {
                        stats.bump("sweep.bulk_commit_256_plus");
                    }
                    let w = seen.len() as u32;
                    let cap: u32 = cfg.sweep_cap;
                    if w + 1 <= cap {
                        stats.bump("sweeps.every_position");
                        (1..=w + 1).collect()
                    } else {
                        // very many writes (bulk commit with pruning): head, tail and an even stride
                        stats.bump("sweeps.sampled_positions");
                        let third = cap / 3;
                        let mut v: std::collections::BTreeSet<u32> = (1..=third).collect();
                        v.extend((w + 1 - third)..=(w + 1));
                        let stride = (w / third).max(1);
                        v.extend((1..=w).step_by(stride as usize));
                        v.into_iter().collect()
                    }
                } else {
                    ks
                };
                let e = Expect {
                    pre: &model,
                    post: &post,
                    pre_version: version,
                    pre_root: root,
                };
                for k in ks {
                    match crash_case(cfg, &main, &e, &commit, k, &mut stats) {
                        Ok(()) => {
                            digest = prng::mix(digest, k as u64);
                        }
                        Err((monitor, detail, signature)) => {
                            violation = Some(Violation {
                                monitor,
                                step: ix,
                                detail,
                                signature,
                            });
                            break;
                        }
                    }
                }
                if violation.is_some() {
                    // convert the sweep into the single failing case for replay/minimisation
                    break;
                }
                store = Some(open(&main, cfg.pruning));
            }
            // carry the commit out on the main store
            let s = store.as_mut().unwrap();
            s.commit(&du);
            model = post;
            version += 1;
            stats.evaluations += 1;
            let got_root = s.get_current_root_hash().0;
            let ref_root = refsmt::root_of(&model);
            if s.get_current_version() != version || got_root != ref_root || dump(s) != model {
                violation = Some(Violation {
                    monitor: "c19.complete_commit_wrong".into(),
                    step: ix,
                    detail: format!(
                        "after an uninterrupted commit: version {} (expected {}), root {} (reference {}), substates equal model: {}",
                        s.get_current_version(), version, hex::encode(got_root), hex::encode(ref_root), dump(s) == model
                    ),
                    signature: "c19.complete_commit_wrong".into(),
                });
                break;
            }
            root = got_root;
            digest = prng::mix(digest, prng::mix(model_digest(&model), prng::fnv64(&root)));
        }
        drop(store);
        let _ = std::fs::remove_dir_all(&main);
        RunOutcome {
            steps: steps.taken,
            violation,
            stats,
            digest,
        }
    }

    fn simplify_step(&self, step: &Step) -> Vec<Step> {
        match step {
            Step::Commit(c) => commit_simplifications(c).into_iter().map(Step::Commit).collect(),
            Step::SweepCommit(c) => {
                let mut v: Vec<Step> = (1..=(c.n_changes() as u32 + 8))
                    .map(|k| Step::CrashCommit { commit: c.clone(), k })
                    .collect();
                v.extend(commit_simplifications(c).into_iter().map(Step::SweepCommit));
                v
            }
            Step::CrashCommit { commit, k } => {
                let mut v: Vec<Step> = commit_simplifications(commit)
                    .into_iter()
                    .flat_map(|c| {
                        let mut ks = vec![*k];
                        if *k > 1 {
                            ks.push(*k - 1);
                        }
                        ks.into_iter().map(move |k| Step::CrashCommit { commit: c.clone(), k })
                    })
                    .collect();
                if *k > 1 {
                    v.push(Step::CrashCommit { commit: commit.clone(), k: 1 });
                }
                v
            }
        }
    }

    fn simplify_cfg(&self, cfg: &Cfg) -> Vec<Cfg> {
        let mut v = vec![];
        if cfg.child_process {
            let mut c = cfg.clone();
            c.child_process = false;
            v.push(c);
        }
        v
    }
}
