//! From-scratch reference commitment (DESIGN appendix B5). Shares no code with the state tree:
//! hashing is done with the `blake2` crate directly.
//!
//! smt(S) = 0^32                               if S is empty
//!        = H(key || value_hash)               if S = {(key, value_hash)}
//!        = H(smt(S|bit=0) || smt(S|bit=1))    otherwise, splitting on successive key bits, MSB first
//! root(state) = smt over entities of (entity_key, smt over partitions of ([partition], smt over
//! substates of (sort_key, H(value)))), with empty tiers omitted.

use super::Model;
use blake2::digest::consts::U32;
use blake2::{Blake2b, Digest};
use std::collections::BTreeMap;

pub type H32 = [u8; 32];
pub const ZERO: H32 = [0u8; 32];

pub fn h(data: &[u8]) -> H32 {
    let mut hasher = Blake2b::<U32>::new();
    hasher.update(data);
    let out = hasher.finalize();
    let mut r = [0u8; 32];
    r.copy_from_slice(&out);
    r
}

fn bit(key: &[u8], i: usize) -> Option<bool> {
    let byte = key.get(i / 8)?;
    Some((byte >> (7 - (i % 8))) & 1 == 1)
}

/// `leaves` must have distinct, prefix-free keys.
pub fn smt(leaves: &[(Vec<u8>, H32)], depth: usize) -> H32 {
    match leaves.len() {
        0 => ZERO,
        1 => {
            let mut buf = leaves[0].0.clone();
            buf.extend_from_slice(&leaves[0].1);
            h(&buf)
        }
        _ => {
            let mut left = vec![];
            let mut right = vec![];
            for l in leaves {
                match bit(&l.0, depth) {
                    Some(false) => left.push(l.clone()),
                    Some(true) => right.push(l.clone()),
                    None => panic!("reference SMT: keys are not prefix-free"),
                }
            }
            let mut buf = smt(&left, depth + 1).to_vec();
            buf.extend_from_slice(&smt(&right, depth + 1));
            h(&buf)
        }
    }
}

pub fn root_of(m: &Model) -> H32 {
    // group by entity, then partition
    let mut by_entity: BTreeMap<&Vec<u8>, BTreeMap<u8, Vec<(Vec<u8>, H32)>>> = BTreeMap::new();
    for ((node, part, sort), value) in m {
        by_entity
            .entry(node)
            .or_default()
            .entry(*part)
            .or_default()
            .push((sort.clone(), h(value)));
    }
    let mut entity_leaves = vec![];
    for (node, parts) in by_entity {
        let mut part_leaves = vec![];
        for (part, subs) in parts {
            let r = smt(&subs, 0);
            part_leaves.push((vec![part], r));
        }
        entity_leaves.push((node.clone(), smt(&part_leaves, 0)));
    }
    smt(&entity_leaves, 0)
}

pub fn value_hashes(m: &Model) -> BTreeMap<super::Key, H32> {
    m.iter().map(|(k, v)| (k.clone(), h(v))).collect()
}
