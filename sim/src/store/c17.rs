//! C17 — the state root commits exactly to the current substates, however the history is batched.

use super::refsmt;
use super::*;
use crate::simkit::*;
use radix_substate_store_impls::state_tree::tree_store::*;
use radix_substate_store_impls::state_tree::{list_substate_hashes_at_version, put_at_next_version};
use serde_json::json;

#[derive(Clone, Debug, Serialize, Deserialize)]
pub enum Step {
    Commit(Commit),
    /// Deletes every substate (per partition: either a reset to empty or explicit deletes).
    Wipe { by_reset: bool },
}

#[derive(Clone, Debug, Serialize, Deserialize)]
pub struct Batching {
    /// Commit after these history positions (1-based, ascending); the last position is implied.
    pub cuts: Vec<usize>,
    /// Decides, per touched partition of a merged batch, delta vs reset representation and
    /// whether redundant sets of unchanged values are included.
    pub repr_seed: u64,
    /// 0 typed in-memory, 1 typed in-memory with pruning, 2 serialized in-memory
    pub store: u8,
}

#[derive(Clone, Debug, Serialize, Deserialize)]
pub struct Cfg {
    pub universe: Universe,
    pub node_pool: Vec<Hex>,
    pub n_commits: usize,
    pub batchings: Vec<Batching>,
    pub wipe_permille: u32,
}

pub struct C17;

/// Expresses the net change `from -> to` as one commit; representation choices from `rng`.
pub fn diff_commit(from: &Model, to: &Model, rng: &mut Rng) -> Commit {
    let mut parts: std::collections::BTreeSet<(Vec<u8>, u8)> = Default::default();
    for (k, v) in from {
        if to.get(k) != Some(v) {
            parts.insert((k.0.clone(), k.1));
        }
    }
    for (k, v) in to {
        if from.get(k) != Some(v) {
            parts.insert((k.0.clone(), k.1));
        }
    }
    let mut commit = Commit::default();
    for (node, part) in parts {
        let in_part = |m: &Model| -> Vec<(Vec<u8>, Vec<u8>)> {
            m.range((node.clone(), part, vec![])..)
                .take_while(|(k, _)| k.0 == node && k.1 == part)
                .map(|(k, v)| (k.2.clone(), v.clone()))
                .collect()
        };
        let a = in_part(from);
        let b = in_part(to);
        let reset = rng.chance(1, 3);
        let mut sets = vec![];
        if reset {
            for (k, v) in &b {
                sets.push((Hex(k.clone()), Some(Hex(v.clone()))));
            }
        } else {
            let redundant = rng.chance(1, 4);
            for (k, v) in &b {
                let same = a.iter().any(|(ka, va)| ka == k && va == v);
                if !same || redundant {
                    sets.push((Hex(k.clone()), Some(Hex(v.clone()))));
                }
            }
            for (k, _) in &a {
                if !b.iter().any(|(kb, _)| kb == k) {
                    sets.push((Hex(k.clone()), None));
                }
            }
            rng.shuffle(&mut sets);
        }
        let pu = PartUpd { part, reset, sets };
        if let Some(n) = commit.nodes.iter_mut().find(|n| n.node.0 == node) {
            n.parts.push(pu);
        } else {
            commit.nodes.push(NodeUpd {
                node: Hex(node.clone()),
                parts: vec![pu],
            });
        }
    }
    commit
}

pub fn wipe_commit(m: &Model, by_reset: bool) -> Commit {
    let mut commit = Commit::default();
    for (node, part) in model_partitions(m) {
        let sets = if by_reset {
            vec![]
        } else {
            m.range((node.clone(), part, vec![])..)
                .take_while(|(k, _)| k.0 == node && k.1 == part)
                .map(|(k, _)| (Hex(k.2.clone()), None))
                .collect()
        };
        let pu = PartUpd {
            part,
            reset: by_reset,
            sets,
        };
        if let Some(n) = commit.nodes.iter_mut().find(|n| n.node.0 == node) {
            n.parts.push(pu);
        } else {
            commit.nodes.push(NodeUpd {
                node: Hex(node),
                parts: vec![pu],
            });
        }
    }
    commit
}

pub fn listed_hashes<S: ReadableTreeStore>(store: &S, version: u64) -> Result<BTreeMap<Key, refsmt::H32>, String> {
    if version == 0 {
        return Ok(BTreeMap::new());
    }
    let l = catch_quiet(|| list_substate_hashes_at_version(store, version))?;
    let mut got = BTreeMap::new();
    for (pk, by_sort) in l {
        for (sk, h) in by_sort {
            got.insert((pk.node_key.clone(), pk.partition_num, sk.0), h.0);
        }
    }
    Ok(got)
}

enum AnyStore {
    Typed(TypedInMemoryTreeStore),
    Ser(SerializedInMemoryTreeStore),
}

impl AnyStore {
    fn put(&self, version: u64, du: &DatabaseUpdates) -> Result<refsmt::H32, String> {
        let cur = Some(version).filter(|v| *v > 0);
        catch_quiet(|| match self {
            AnyStore::Typed(s) => put_at_next_version(s, cur, du).0,
            AnyStore::Ser(s) => put_at_next_version(s, cur, du).0,
        })
    }
    fn listed(&self, version: u64) -> Result<BTreeMap<Key, refsmt::H32>, String> {
        match self {
            AnyStore::Typed(s) => listed_hashes(s, version),
            AnyStore::Ser(s) => listed_hashes(s, version),
        }
    }
}

impl World for C17 {
    type Step = Step;
    type Cfg = Cfg;
    fn property(&self) -> &'static str {
        "C17"
    }
    fn world(&self) -> &'static str {
        "store"
    }
    fn rule(&self) -> String {
        "Per run: random key universe and a random commit history (deltas, deletes, resets, occasional wipe to the empty state) applied commit by commit to a tree store; the root after every commit is compared with a from-scratch sparse-Merkle commitment over the model's substates and the tree listing with the model's value hashes. Then the same net history is re-batched (random cut points; per merged batch a random delta/reset representation, optionally with redundant sets) into fresh stores (typed, typed+pruning, serialized) and every cut-point root compared again. evaluations = put_at_next_version calls; distinct = distinct (state digest, batch digest) pairs whose batch changes at least one substate.".into()
    }
    fn assumptions(&self) -> Vec<String> {
        vec![
            "Keys are fixed-length per tier within a run (prefix-free), as the real key mapper produces; deletes target existing keys.".into(),
            "The reference commitment restates the hashing definitions of state_tree/types.rs (leaf = H(key||value_hash), internal = H(left||right), empty = 0^32) with the blake2 crate; it shares no code with the tree.".into(),
        ]
    }
    fn real_vs_stub(&self) -> serde_json::Value {
        json!({"real": ["put_at_next_version (3-tier JMT)", "list_substate_hashes_at_version", "TypedInMemoryTreeStore", "SerializedInMemoryTreeStore"],
               "stub_or_ours": ["history generator and re-batcher", "BTreeMap model", "reference sparse-Merkle commitment"]})
    }
    fn probes(&self) -> Vec<&'static str> {
        vec!["empty_state_root_checked", "batchings_checked", "commit.with_reset", "partition_emptied", "entity_emptied", "rebatch.merged_commits"]
    }
    fn budget(&self, tier: Tier) -> (u64, u64) {
        match tier {
            Tier::Quick => (150_000, 40),
            Tier::Thorough => (400_000, 900),
        }
    }
    fn gen_cfg(&self, rng: &mut Rng, tier: Tier, _run: u64) -> Cfg {
        let universe = Universe::draw(rng);
        let node_pool = universe.node_pool(rng).into_iter().map(Hex).collect();
        let n_commits = rng.range(1, if tier == Tier::Quick { 12 } else { 40 }) as usize;
        let n_b = rng.range(1, 3) as usize;
        let batchings = (0..n_b)
            .map(|_| {
                let mut cuts: Vec<usize> = (1..n_commits).filter(|_| rng.chance(1, 3)).collect();
                cuts.push(n_commits);
                Batching {
                    cuts,
                    repr_seed: rng.next_u64(),
                    store: rng.below(3) as u8,
                }
            })
            .collect();
        Cfg {
            universe,
            node_pool,
            n_commits,
            batchings,
            wipe_permille: *rng.pick(&[0u32, 50, 150]),
        }
    }

    fn run(&self, cfg: &Cfg, mode: Mode<Step>) -> RunOutcome<Step> {
        let mut steps = Steps::new(mode);
        let mut stats = Stats::default();
        let mut digest = 0u64;
        let nodes: Vec<Vec<u8>> = cfg.node_pool.iter().map(|h| h.0.clone()).collect();
        let store = TypedInMemoryTreeStore::new();
        let mut model = Model::new();
        let mut states: Vec<Model> = vec![model.clone()];
        let mut version = 0u64;
        let mut violation = None;
        let mut n = 0;
        loop {
            let step = steps.next(|rng| {
                if n >= cfg.n_commits {
                    return None;
                }
                if !model.is_empty() && rng.below(1000) < cfg.wipe_permille as u64 {
                    Some(Step::Wipe { by_reset: rng.chance(1, 2) })
                } else {
                    Some(Step::Commit(cfg.universe.gen_commit(rng, &nodes, &model, false)))
                }
            });
            n += 1;
            let Some(step) = step else { break };
            let ix = steps.index();
            let commit = match step {
                Step::Commit(c) => c,
                Step::Wipe { by_reset } => wipe_commit(&model, by_reset),
            };
            let du = commit.to_database_updates();
            let before_parts = model_partitions(&model);
            let before_entities: std::collections::BTreeSet<Vec<u8>> = model.keys().map(|k| k.0.clone()).collect();
            let pre_digest = model_digest(&model);
            commit.apply_to(&mut model);
            if commit.nodes.iter().any(|n| n.parts.iter().any(|p| p.reset)) {
                stats.bump("commit.with_reset");
            }
            let after_parts = model_partitions(&model);
            if before_parts.iter().any(|p| !after_parts.contains(p)) {
                stats.bump("partition_emptied");
            }
            let after_entities: std::collections::BTreeSet<Vec<u8>> = model.keys().map(|k| k.0.clone()).collect();
            if before_entities.iter().any(|e| !after_entities.contains(e)) {
                stats.bump("entity_emptied");
            }
            stats.evaluations += 1;
            let r = catch_quiet(|| put_at_next_version(&store, Some(version).filter(|v| *v > 0), &du).0);
            version += 1;
            states.push(model.clone());
            let post_digest = model_digest(&model);
            if post_digest != pre_digest {
                stats.distinct.insert(prng::mix(pre_digest, post_digest));
            }
            let reference = refsmt::root_of(&model);
            let fail = |monitor: &str, detail: String| Violation {
                monitor: monitor.into(),
                step: ix,
                detail,
                signature: monitor.into(),
            };
            match r {
                Err(p) => {
                    violation = Some(fail("c17.put_panicked", format!("put_at_next_version panicked: {}", p)));
                    break;
                }
                Ok(root) => {
                    if model.is_empty() {
                        stats.bump("empty_state_root_checked");
                    }
                    if root != reference {
                        violation = Some(fail(
                            "c17.root_mismatch",
                            format!("root after commit {} is {} but the from-scratch commitment over {} substates is {}", version, hex::encode(root), model.len(), hex::encode(reference)),
                        ));
                        break;
                    }
                    digest = prng::mix(digest, prng::fnv64(&root));
                }
            }
            match listed_hashes(&store, version) {
                Err(p) => {
                    violation = Some(fail("c17.listing_panicked", format!("listing at version {} panicked: {}", version, p)));
                    break;
                }
                Ok(got) => {
                    if got != refsmt::value_hashes(&model) {
                        violation = Some(fail(
                            "c17.listing_mismatch",
                            format!("tree lists {} substate hashes, model holds {} substates (or hashes differ)", got.len(), model.len()),
                        ));
                        break;
                    }
                }
            }
        }
        // re-batchings of the same net history
        if violation.is_none() {
            let n_states = states.len() - 1;
            'outer: for b in &cfg.batchings {
                let mut rng = Rng::from_u64(b.repr_seed);
                let st = match b.store {
                    0 => AnyStore::Typed(TypedInMemoryTreeStore::new()),
                    1 => AnyStore::Typed(TypedInMemoryTreeStore::new().with_pruning_enabled()),
                    _ => AnyStore::Ser(SerializedInMemoryTreeStore::new()),
                };
                let mut at = 0usize;
                let mut v = 0u64;
                let mut cuts: Vec<usize> = b.cuts.iter().copied().filter(|c| *c >= 1 && *c < n_states).collect();
                cuts.push(n_states);
                cuts.dedup();
                for cut in cuts {
                    if cut <= at {
                        continue;
                    }
                    if cut - at > 1 {
                        stats.bump("rebatch.merged_commits");
                    }
                    let c = diff_commit(&states[at], &states[cut], &mut rng);
                    let du = c.to_database_updates();
                    stats.evaluations += 1;
                    let r = st.put(v, &du);
                    v += 1;
                    let reference = refsmt::root_of(&states[cut]);
                    let last = steps.taken.len().saturating_sub(1);
                    let fail = |monitor: &str, detail: String| Violation {
                        monitor: monitor.into(),
                        step: last,
                        detail,
                        signature: monitor.into(),
                    };
                    match r {
                        Err(p) => {
                            violation = Some(fail("c17.rebatch_put_panicked", format!("batching {:?} store {}: {}", b.cuts, b.store, p)));
                            break 'outer;
                        }
                        Ok(root) if root != reference => {
                            violation = Some(fail(
                                "c17.rebatch_root_mismatch",
                                format!("batching with cuts {:?} (store kind {}): root after history position {} is {} but the commitment of that state is {}", b.cuts, b.store, cut, hex::encode(root), hex::encode(reference)),
                            ));
                            break 'outer;
                        }
                        Ok(root) => {
                            digest = prng::mix(digest, prng::fnv64(&root));
                        }
                    }
                    match st.listed(v) {
                        Ok(got) if got == refsmt::value_hashes(&states[cut]) => {}
                        Ok(_) => {
                            violation = Some(fail("c17.rebatch_listing_mismatch", format!("batching {:?}: listing differs from model at position {}", b.cuts, cut)));
                            break 'outer;
                        }
                        Err(p) => {
                            violation = Some(fail("c17.rebatch_listing_panicked", format!("batching {:?}: {}", b.cuts, p)));
                            break 'outer;
                        }
                    }
                    at = cut;
                }
                stats.bump("batchings_checked");
            }
        }
        RunOutcome {
            steps: steps.taken,
            violation,
            stats,
            digest,
        }
    }

    fn simplify_step(&self, step: &Step) -> Vec<Step> {
        match step {
            Step::Commit(c) => commit_simplifications(c).into_iter().map(Step::Commit).collect(),
            Step::Wipe { .. } => vec![],
        }
    }
    fn simplify_cfg(&self, cfg: &Cfg) -> Vec<Cfg> {
        let mut v = vec![];
        for i in 0..cfg.batchings.len() {
            let mut c = cfg.clone();
            c.batchings.remove(i);
            v.push(c);
        }
        v
    }
}
