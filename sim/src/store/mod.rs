//! Store world: commit-history generator, map model, from-scratch sparse-Merkle reference,
//! shared by C14, C15, C17, C18, C19.

pub mod c14;
pub mod c15;
pub mod c17;
pub mod c18;
pub mod c19;
pub mod refsmt;

use crate::simkit::{Hex, Rng};
use radix_common::prelude::*;
use radix_substate_store_interface::interface::*;
use serde::{Deserialize, Serialize};
use std::collections::BTreeMap;

/// One partition's update inside a commit.
#[derive(Clone, Debug, Serialize, Deserialize, PartialEq, Eq)]
pub struct PartUpd {
    pub part: u8,
    /// true = whole-partition reset (then every entry of `sets` is `Some`).
    pub reset: bool,
    /// (sort key, Some(value) = set | None = delete), in order.
    pub sets: Vec<(Hex, Option<Hex>)>,
}

#[derive(Clone, Debug, Serialize, Deserialize, PartialEq, Eq)]
pub struct NodeUpd {
    pub node: Hex,
    pub parts: Vec<PartUpd>,
}

/// A whole commit in symbolic form (explicit keys and values).
#[derive(Clone, Debug, Serialize, Deserialize, PartialEq, Eq, Default)]
pub struct Commit {
    pub nodes: Vec<NodeUpd>,
}

pub type Key = (Vec<u8>, u8, Vec<u8>);
pub type Model = BTreeMap<Key, Vec<u8>>;

impl Commit {
    pub fn to_database_updates(&self) -> DatabaseUpdates {
        let mut node_updates: IndexMap<DbNodeKey, NodeDatabaseUpdates> = IndexMap::default();
        for n in &self.nodes {
            let entry = node_updates
                .entry(n.node.0.clone())
                .or_insert_with(|| NodeDatabaseUpdates {
                    partition_updates: IndexMap::default(),
                });
            for p in &n.parts {
                let upd = if p.reset {
                    let mut new_substate_values: IndexMap<DbSortKey, DbSubstateValue> = IndexMap::default();
                    for (k, v) in &p.sets {
                        if let Some(v) = v {
                            new_substate_values.insert(DbSortKey(k.0.clone()), v.0.clone());
                        }
                    }
                    PartitionDatabaseUpdates::Reset { new_substate_values }
                } else {
                    let mut substate_updates: IndexMap<DbSortKey, DatabaseUpdate> = IndexMap::default();
                    for (k, v) in &p.sets {
                        substate_updates.insert(
                            DbSortKey(k.0.clone()),
                            match v {
                                Some(v) => DatabaseUpdate::Set(v.0.clone()),
                                None => DatabaseUpdate::Delete,
                            },
                        );
                    }
                    PartitionDatabaseUpdates::Delta { substate_updates }
                };
                entry.partition_updates.insert(p.part, upd);
            }
        }
        DatabaseUpdates { node_updates }
    }

    /// Applies the commit to the map model (the semantics every store must have).
    pub fn apply_to(&self, m: &mut Model) {
        // identical folding to `to_database_updates`: later duplicates of the same
        // (node, partition) replace earlier ones; duplicates of a sort key: last wins.
        let du = self.to_database_updates();
        apply_database_updates(m, &du);
    }

    pub fn is_empty(&self) -> bool {
        self.nodes.iter().all(|n| n.parts.is_empty())
    }

    pub fn n_changes(&self) -> usize {
        self.nodes
            .iter()
            .map(|n| n.parts.iter().map(|p| p.sets.len() + p.reset as usize).sum::<usize>())
            .sum()
    }
}

pub fn apply_database_updates(m: &mut Model, du: &DatabaseUpdates) {
    for (node, nu) in &du.node_updates {
        for (part, pu) in &nu.partition_updates {
            match pu {
                PartitionDatabaseUpdates::Delta { substate_updates } => {
                    for (sk, u) in substate_updates {
                        let key = (node.clone(), *part, sk.0.clone());
                        match u {
                            DatabaseUpdate::Set(v) => {
                                m.insert(key, v.clone());
                            }
                            DatabaseUpdate::Delete => {
                                m.remove(&key);
                            }
                        }
                    }
                }
                PartitionDatabaseUpdates::Reset { new_substate_values } => {
                    let keys: Vec<Key> = m
                        .range((node.clone(), *part, vec![])..)
                        .take_while(|(k, _)| &k.0 == node && k.1 == *part)
                        .map(|(k, _)| k.clone())
                        .collect();
                    for k in keys {
                        m.remove(&k);
                    }
                    for (sk, v) in new_substate_values {
                        m.insert((node.clone(), *part, sk.0.clone()), v.clone());
                    }
                }
            }
        }
    }
}

/// Reads a whole store through its public listing API into the model shape.
pub fn dump<D: SubstateDatabase + ListableSubstateDatabase>(db: &D) -> Model {
    let mut m = Model::new();
    let parts: Vec<DbPartitionKey> = db.list_partition_keys().collect();
    for pk in parts {
        for (sk, v) in db.list_raw_values_from_db_key(&pk, None) {
            m.insert((pk.node_key.clone(), pk.partition_num, sk.0), v);
        }
    }
    m
}

pub fn model_partitions(m: &Model) -> std::collections::BTreeSet<(Vec<u8>, u8)> {
    m.keys().map(|k| (k.0.clone(), k.1)).collect()
}

pub fn model_digest(m: &Model) -> u64 {
    let mut h = 0xabcdu64;
    for (k, v) in m {
        h = crate::simkit::prng::mix(h, crate::simkit::prng::fnv64(&k.0));
        h = crate::simkit::prng::mix(h, k.1 as u64);
        h = crate::simkit::prng::mix(h, crate::simkit::prng::fnv64(&k.2));
        h = crate::simkit::prng::mix(h, crate::simkit::prng::fnv64(v));
    }
    h
}

/// Per-run key universe: few distinct bytes so that long shared prefixes are common; fixed
/// lengths per tier so that keys are prefix-free (a JMT requirement the real key mapper meets).
#[derive(Clone, Debug, Serialize, Deserialize)]
pub struct Universe {
    pub node_len: usize,
    pub n_nodes: usize,
    pub alphabet: Vec<u8>,
    pub parts: Vec<u8>,
    /// sort key length per partition index (same order as `parts`)
    pub sort_lens: Vec<usize>,
    pub max_value_len: usize,
    /// per-mille weights
    pub w_reset: u32,
    pub w_delete: u32,
    pub max_changes: usize,
}

impl Universe {
    pub fn draw(rng: &mut Rng) -> Self {
        let alpha_choices: [&[u8]; 5] = [
            &[0x00, 0xff],
            &[0x00, 0x01, 0xff],
            &[0x00, 0x0f, 0xf0, 0xff],
            &[0x00, 0x10, 0x11, 0x7f, 0x80, 0xfe, 0xff],
            &[0x5f, 0x00, 0xff], // contains the tier separator byte b'_'
        ];
        let alphabet = rng.pick(&alpha_choices).to_vec();
        let n_parts = rng.range(1, 4) as usize;
        let part_pool = [0u8, 1, 2, 0x0f, 0x10, 0x40, 0x5f, 0x80, 0xfe, 0xff];
        let mut parts: Vec<u8> = vec![];
        while parts.len() < n_parts {
            let p = *rng.pick(&part_pool);
            if !parts.contains(&p) {
                parts.push(p);
            }
        }
        let sort_lens = (0..n_parts).map(|_| *rng.pick(&[1usize, 2, 3, 5, 8, 21])).collect();
        Universe {
            node_len: *rng.pick(&[1usize, 2, 4, 30, 50]),
            n_nodes: rng.range(1, 6) as usize,
            alphabet,
            parts,
            sort_lens,
            max_value_len: *rng.pick(&[1usize, 4, 40]),
            w_reset: *rng.pick(&[0u32, 50, 150, 400]),
            w_delete: *rng.pick(&[100u32, 300, 500]),
            max_changes: *rng.pick(&[3usize, 8, 20, 40]),
        }
    }

    fn key(&self, rng: &mut Rng, len: usize) -> Vec<u8> {
        (0..len).map(|_| *rng.pick(&self.alphabet)).collect()
    }

    pub fn node_pool(&self, rng: &mut Rng) -> Vec<Vec<u8>> {
        let mut v: Vec<Vec<u8>> = vec![];
        let mut guard = 0;
        while v.len() < self.n_nodes && guard < 200 {
            guard += 1;
            let k = self.key(rng, self.node_len);
            if !v.contains(&k) {
                v.push(k);
            }
        }
        v
    }

    /// A bulk commit: `n` substate operations (sets, and deletes of existing keys) spread over the
    /// partitions whose sort keys are at least two bytes long. None if the universe has no such
    /// partition. Sizes are a tuning knob correctness must not depend on.
    pub fn gen_bulk_commit(&self, rng: &mut Rng, nodes: &[Vec<u8>], m: &Model, n: usize) -> Option<Commit> {
        let wide: Vec<usize> = (0..self.parts.len()).filter(|i| self.sort_lens[*i] >= 2).collect();
        if wide.is_empty() {
            return None;
        }
        let mut commit = Commit::default();
        let mut left = n;
        let mut used: std::collections::BTreeSet<(Vec<u8>, u8)> = Default::default();
        while left > 0 {
            let node = rng.pick(nodes).clone();
            let pix = *rng.pick(&wide);
            let part = self.parts[pix];
            if !used.insert((node.clone(), part)) {
                if used.len() >= nodes.len() * wide.len() {
                    break;
                }
                continue;
            }
            let slen = self.sort_lens[pix];
            let take = if rng.chance(1, 2) { left } else { rng.range(1, left as u64) as usize };
            let mut seen: std::collections::BTreeSet<Vec<u8>> = Default::default();
            let mut sets = vec![];
            // deletes of existing keys first
            for (k, _) in m.range((node.clone(), part, vec![])..).take_while(|(k, _)| k.0 == node && k.1 == part) {
                if sets.len() < take && rng.chance(1, 3) && seen.insert(k.2.clone()) {
                    sets.push((Hex(k.2.clone()), None));
                }
            }
            let mut guard = 0;
            while sets.len() < take && guard < take * 4 {
                guard += 1;
                let k = rng.bytes(slen);
                if seen.insert(k.clone()) {
                    sets.push((Hex(k), Some(Hex(vec![rng.next_u64() as u8]))));
                }
            }
            left = left.saturating_sub(sets.len().max(1));
            let pu = PartUpd { part, reset: false, sets };
            if let Some(nu) = commit.nodes.iter_mut().find(|x| x.node.0 == node) {
                nu.parts.push(pu);
            } else {
                commit.nodes.push(NodeUpd { node: Hex(node), parts: vec![pu] });
            }
        }
        Some(commit)
    }

    /// Generates a commit against the model `m` (used only to bias towards existing keys and to
    /// keep deletes on existing keys when `delete_absent` is false).
    pub fn gen_commit(&self, rng: &mut Rng, nodes: &[Vec<u8>], m: &Model, delete_absent: bool) -> Commit {
        let mut shadow = m.clone();
        let mut commit = Commit::default();
        let n_changes = rng.range(1, self.max_changes as u64) as usize;
        let mut used: std::collections::BTreeSet<(Vec<u8>, u8)> = Default::default();
        let mut budget = n_changes as i64;
        let mut guard = 0;
        while budget > 0 && guard < 50 {
            guard += 1;
            let node = rng.pick(nodes).clone();
            let pix = rng.usize_below(self.parts.len());
            let part = self.parts[pix];
            if !used.insert((node.clone(), part)) {
                continue;
            }
            let slen = self.sort_lens[pix];
            let existing: Vec<Vec<u8>> = shadow
                .range((node.clone(), part, vec![])..)
                .take_while(|(k, _)| k.0 == node && k.1 == part)
                .map(|(k, _)| k.2.clone())
                .collect();
            let reset = rng.below(1000) < self.w_reset as u64;
            let n = rng.range(if reset { 0 } else { 1 }, (budget as u64).min(12).max(1)) as usize;
            let mut sets: Vec<(Hex, Option<Hex>)> = vec![];
            let mut seen: std::collections::BTreeSet<Vec<u8>> = Default::default();
            for _ in 0..n {
                let use_existing = !existing.is_empty() && rng.chance(1, 2);
                let sk = if use_existing {
                    rng.pick(&existing).clone()
                } else {
                    self.key(rng, slen)
                };
                if !seen.insert(sk.clone()) {
                    continue;
                }
                let exists = existing.contains(&sk);
                let delete = !reset
                    && rng.below(1000) < self.w_delete as u64
                    && (exists || delete_absent);
                if delete {
                    sets.push((Hex(sk), None));
                } else {
                    let vlen = rng.range(0, self.max_value_len as u64) as usize;
                    sets.push((Hex(sk), Some(Hex(rng.bytes(vlen)))));
                }
            }
            budget -= (sets.len() + reset as usize).max(1) as i64;
            if !reset && sets.is_empty() {
                continue;
            }
            let pu = PartUpd { part, reset, sets };
            if let Some(n) = commit.nodes.iter_mut().find(|n| n.node.0 == node) {
                n.parts.push(pu);
            } else {
                commit.nodes.push(NodeUpd {
                    node: Hex(node),
                    parts: vec![pu],
                });
            }
        }
        commit.apply_to(&mut shadow);
        commit
    }
}

/// Removes no-op parts so that shrinking converges; used by step simplifiers.
pub fn commit_simplifications(c: &Commit) -> Vec<Commit> {
    let mut out = vec![];
    // drop a node
    for i in 0..c.nodes.len() {
        let mut d = c.clone();
        d.nodes.remove(i);
        if !d.nodes.is_empty() {
            out.push(d);
        }
    }
    // drop a partition
    for i in 0..c.nodes.len() {
        for j in 0..c.nodes[i].parts.len() {
            if c.nodes[i].parts.len() > 1 {
                let mut d = c.clone();
                d.nodes[i].parts.remove(j);
                out.push(d);
            }
        }
    }
    // drop a set, turn reset into delta
    for i in 0..c.nodes.len() {
        for j in 0..c.nodes[i].parts.len() {
            let p = &c.nodes[i].parts[j];
            for k in 0..p.sets.len() {
                if p.sets.len() > 1 || p.reset {
                    let mut d = c.clone();
                    d.nodes[i].parts[j].sets.remove(k);
                    out.push(d);
                }
            }
            if p.reset && !p.sets.is_empty() {
                let mut d = c.clone();
                d.nodes[i].parts[j].reset = false;
                out.push(d);
            }
            for k in 0..p.sets.len() {
                if let Some(v) = &p.sets[k].1 {
                    if v.0.len() > 1 {
                        let mut d = c.clone();
                        d.nodes[i].parts[j].sets[k].1 = Some(Hex(vec![v.0[0]]));
                        out.push(d);
                    }
                }
            }
        }
    }
    out
}
