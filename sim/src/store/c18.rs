//! C18 — pruning never removes nodes of the current state tree; reported stale parts are dead.

use super::c17::{listed_hashes, wipe_commit};
use super::refsmt;
use super::*;
use crate::simkit::*;
use radix_substate_store_impls::state_tree::put_at_next_version;
use radix_substate_store_impls::state_tree::tree_store::*;
use serde_json::json;
use std::collections::BTreeSet;

pub use super::c17::Step;

#[derive(Clone, Debug, Serialize, Deserialize)]
pub struct Cfg {
    pub universe: Universe,
    pub node_pool: Vec<Hex>,
    pub n_commits: usize,
    pub wipe_permille: u32,
    /// per-mille chance that a commit deletes one whole entity (all its partitions)
    pub entity_delete_permille: u32,
}

pub struct C18;

type NodeKey = (u64, Vec<u8>); // (version, nibbles as one byte each) — an ordering-friendly form

fn key_of(k: &StoredTreeNodeKey) -> NodeKey {
    (k.version(), k.nibble_path().nibbles().map(u8::from).collect())
}

/// Tier-aware traversal over the raw node map: every node key reachable from the entity-tier
/// root of `version`, plus the substates found (partition key, sort key, value hash).
/// Err = a referenced node is missing.
fn reachable(
    nodes: &std::collections::BTreeMap<NodeKey, TreeNode>,
    version: u64,
) -> Result<(BTreeSet<NodeKey>, BTreeMap<Key, refsmt::H32>), String> {
    let mut seen = BTreeSet::new();
    let mut subs = BTreeMap::new();
    if version == 0 {
        return Ok((seen, subs));
    }
    // (tier, key, tier prefix length in nibbles)
    let mut stack: Vec<(u8, NodeKey, usize)> = vec![(0, (version, vec![]), 0)];
    while let Some((tier, key, prefix_nibbles)) = stack.pop() {
        let Some(node) = nodes.get(&key) else {
            if tier == 0 && key.1.is_empty() {
                // a root may legitimately be absent when the tree at that version is empty
                return Ok((seen, subs));
            }
            return Err(format!("node (version {}, path {:?}) of tier {} is referenced but not stored", key.0, key.1, tier));
        };
        seen.insert(key.clone());
        match node {
            TreeNode::Internal(i) => {
                for c in &i.children {
                    let mut p = key.1.clone();
                    p.push(u8::from(c.nibble));
                    stack.push((tier, (c.version, p), prefix_nibbles));
                }
            }
            TreeNode::Leaf(l) => {
                let mut full: Vec<u8> = key.1.clone();
                full.extend(l.key_suffix.nibbles().map(u8::from));
                if full.len() % 2 != 0 {
                    return Err(format!("leaf with odd nibble length at {:?}", key));
                }
                let bytes: Vec<u8> = full.chunks(2).map(|c| (c[0] << 4) | c[1]).collect();
                if tier < 2 {
                    // the nested tier's root: path = bytes || '_' , version = leaf payload
                    let mut child_prefix = bytes.clone();
                    child_prefix.push(b'_');
                    let nibbles: Vec<u8> = child_prefix.iter().flat_map(|b| [b >> 4, b & 0xf]).collect();
                    let n = nibbles.len();
                    stack.push((tier + 1, (l.last_hash_change_version, nibbles), n));
                } else {
                    // bytes = entity || '_' || partition || '_' || sort key ; prefix length known
                    let prefix_bytes = prefix_nibbles / 2;
                    let sort = bytes[prefix_bytes..].to_vec();
                    let part = bytes[prefix_bytes - 2];
                    let entity = bytes[..prefix_bytes - 3].to_vec();
                    subs.insert((entity, part, sort), l.value_hash.0);
                }
            }
            TreeNode::Null => {}
        }
    }
    Ok((seen, subs))
}

fn snapshot(store: &TypedInMemoryTreeStore) -> std::collections::BTreeMap<NodeKey, TreeNode> {
    store
        .tree_nodes
        .borrow()
        .iter()
        .map(|(k, v)| (key_of(k), v.clone()))
        .collect()
}

/// All node keys under a stale subtree root (within the unpruned store).
fn expand_subtree(nodes: &std::collections::BTreeMap<NodeKey, TreeNode>, root: NodeKey) -> BTreeSet<NodeKey> {
    let mut out = BTreeSet::new();
    let mut stack = vec![root];
    while let Some(k) = stack.pop() {
        if let Some(n) = nodes.get(&k) {
            out.insert(k.clone());
            if let TreeNode::Internal(i) = n {
                for c in &i.children {
                    let mut p = k.1.clone();
                    p.push(u8::from(c.nibble));
                    stack.push((c.version, p));
                }
            }
        }
    }
    out
}

impl World for C18 {
    type Step = Step;
    type Cfg = Cfg;
    fn property(&self) -> &'static str {
        "C18"
    }
    fn world(&self) -> &'static str {
        "store"
    }
    fn rule(&self) -> String {
        "Per run: a random commit history biased to partition resets, deletion of all partitions of an entity, wipes and later re-creation, fed in lock-step to two TypedInMemoryTreeStores (pruning on / off). After each commit (a) the pruned store is traversed tier-aware from the current root by our own traversal over its raw node map: every referenced node must be stored and the substates found must be exactly the model's; (b) every stale part the unpruned store reported for this commit (subtrees expanded) must be unreachable from this root and from every later root of the run. evaluations = commits x 2 stores; distinct = distinct (pre-state, post-state) digests with a real change.".into()
    }
    fn assumptions(&self) -> Vec<String> {
        vec![
            "Keys are fixed-length per tier (prefix-free).".into(),
            "Reachability is computed by our own traversal that restates the tier nesting convention (nested root path = leaf key bytes || '_', version = leaf payload).".into(),
        ]
    }
    fn real_vs_stub(&self) -> serde_json::Value {
        json!({"real": ["put_at_next_version", "TypedInMemoryTreeStore with and without pruning (record_stale_tree_part)", "list_substate_hashes_at_version"],
               "stub_or_ours": ["history generator", "model", "tier-aware reachability traversal"]})
    }
    fn probes(&self) -> Vec<&'static str> {
        vec!["stale.node", "stale.subtree", "entity_deleted", "entity_recreated", "partition_recreated", "stale_keys_checked_against_later_roots"]
    }
    fn budget(&self, tier: Tier) -> (u64, u64) {
        match tier {
            Tier::Quick => (100_000, 40),
            Tier::Thorough => (300_000, 900),
        }
    }
    fn gen_cfg(&self, rng: &mut Rng, tier: Tier, _run: u64) -> Cfg {
        let mut universe = Universe::draw(rng);
        universe.w_reset = *rng.pick(&[150u32, 300, 500]);
        let node_pool = universe.node_pool(rng).into_iter().map(Hex).collect();
        Cfg {
            universe,
            node_pool,
            n_commits: rng.range(2, if tier == Tier::Quick { 14 } else { 40 }) as usize,
            wipe_permille: *rng.pick(&[0u32, 80, 200]),
            entity_delete_permille: *rng.pick(&[0u32, 100, 300]),
        }
    }

    fn run(&self, cfg: &Cfg, mode: Mode<Step>) -> RunOutcome<Step> {
        let mut steps = Steps::new(mode);
        let mut stats = Stats::default();
        let mut digest = 0u64;
        let nodes: Vec<Vec<u8>> = cfg.node_pool.iter().map(|h| h.0.clone()).collect();
        let pruned = TypedInMemoryTreeStore::new().with_pruning_enabled();
        let unpruned = TypedInMemoryTreeStore::new();
        let mut model = Model::new();
        let mut version = 0u64;
        let mut violation: Option<Violation> = None;
        let mut stale_by_version: Vec<(u64, BTreeSet<NodeKey>)> = vec![];
        let mut ever_entities: BTreeSet<Vec<u8>> = BTreeSet::new();
        let mut ever_parts: BTreeSet<(Vec<u8>, u8)> = BTreeSet::new();
        let mut n = 0;
        loop {
            let step = steps.next(|rng| {
                if n >= cfg.n_commits {
                    return None;
                }
                if !model.is_empty() && rng.below(1000) < cfg.wipe_permille as u64 {
                    return Some(Step::Wipe { by_reset: rng.chance(1, 2) });
                }
                if !model.is_empty() && rng.below(1000) < cfg.entity_delete_permille as u64 {
                    // delete one whole entity (all its partitions), by reset or by explicit deletes
                    let ents: Vec<Vec<u8>> = model.keys().map(|k| k.0.clone()).collect::<BTreeSet<_>>().into_iter().collect();
                    let e = rng.pick(&ents).clone();
                    let sub: Model = model.iter().filter(|(k, _)| k.0 == e).map(|(k, v)| (k.clone(), v.clone())).collect();
                    return Some(Step::Commit(wipe_commit(&sub, rng.chance(1, 2))));
                }
                Some(Step::Commit(cfg.universe.gen_commit(rng, &nodes, &model, false)))
            });
            n += 1;
            let Some(step) = step else { break };
            let ix = steps.index();
            let commit = match step {
                Step::Commit(c) => c,
                Step::Wipe { by_reset } => wipe_commit(&model, by_reset),
            };
            let du = commit.to_database_updates();
            let pre_digest = model_digest(&model);
            let before_entities: BTreeSet<Vec<u8>> = model.keys().map(|k| k.0.clone()).collect();
            let before_parts = model_partitions(&model);
            commit.apply_to(&mut model);
            let after_entities: BTreeSet<Vec<u8>> = model.keys().map(|k| k.0.clone()).collect();
            let after_parts = model_partitions(&model);
            if before_entities.iter().any(|e| !after_entities.contains(e)) {
                stats.bump("entity_deleted");
            }
            if after_entities.iter().any(|e| !before_entities.contains(e) && ever_entities.contains(e)) {
                stats.bump("entity_recreated");
            }
            if after_parts.iter().any(|p| !before_parts.contains(p) && ever_parts.contains(p)) {
                stats.bump("partition_recreated");
            }
            ever_entities.extend(after_entities.iter().cloned());
            ever_parts.extend(after_parts.iter().cloned());
            let post_digest = model_digest(&model);
            if post_digest != pre_digest {
                stats.distinct.insert(prng::mix(pre_digest, post_digest));
            }
            let cur = Some(version).filter(|v| *v > 0);
            let stale_before = unpruned.stale_part_buffer.borrow().len();
            stats.evaluations += 2;
            let r1 = catch_quiet(|| put_at_next_version(&pruned, cur, &du).0);
            let r2 = catch_quiet(|| put_at_next_version(&unpruned, cur, &du).0);
            version += 1;
            let fail = |monitor: &str, detail: String| Violation {
                monitor: monitor.into(),
                step: ix,
                detail,
                signature: monitor.into(),
            };
            let (root1, root2) = match (r1, r2) {
                (Ok(a), Ok(b)) => (a, b),
                (Err(p), _) => {
                    violation = Some(fail("c18.put_panicked_with_pruning", format!("commit {} on the pruned store panicked (a needed node was pruned earlier?): {}", version, p)));
                    break;
                }
                (_, Err(p)) => {
                    violation = Some(fail("c18.put_panicked", format!("commit {} on the unpruned store panicked: {}", version, p)));
                    break;
                }
            };
            if root1 != root2 {
                violation = Some(fail("c18.roots_differ", format!("pruned store root {} != unpruned store root {}", hex::encode(root1), hex::encode(root2))));
                break;
            }
            digest = prng::mix(digest, prng::fnv64(&root1));
            // (a) current tree fully stored in the pruned store, and it is exactly the model
            let pruned_nodes = snapshot(&pruned);
            match reachable(&pruned_nodes, version) {
                Err(e) => {
                    violation = Some(fail("c18.current_tree_node_missing", format!("after commit {} with pruning: {}", version, e)));
                    break;
                }
                Ok((_, subs)) => {
                    if subs != refsmt::value_hashes(&model) {
                        violation = Some(fail("c18.current_tree_wrong_content", format!("after commit {}: traversal of the pruned store finds {} substates, model holds {}", version, subs.len(), model.len())));
                        break;
                    }
                }
            }
            // second opinion through the repo's own iterator
            match listed_hashes(&pruned, version) {
                Ok(got) if got == refsmt::value_hashes(&model) => {}
                Ok(_) => {
                    violation = Some(fail("c18.current_tree_wrong_content", format!("after commit {}: listing of the pruned store differs from the model", version)));
                    break;
                }
                Err(p) => {
                    violation = Some(fail("c18.current_tree_node_missing", format!("after commit {} with pruning, listing panicked: {}", version, p)));
                    break;
                }
            }
            // (b) collect what the unpruned store reported stale for this commit
            let unpruned_nodes = snapshot(&unpruned);
            let mut stale_keys: BTreeSet<NodeKey> = BTreeSet::new();
            for part in unpruned.stale_part_buffer.borrow()[stale_before..].iter() {
                match part {
                    StaleTreePart::Node(k) => {
                        stats.bump("stale.node");
                        stale_keys.insert(key_of(k));
                    }
                    StaleTreePart::Subtree(k) => {
                        stats.bump("stale.subtree");
                        stale_keys.extend(expand_subtree(&unpruned_nodes, key_of(k)));
                    }
                }
            }
            stale_by_version.push((version, stale_keys));
            // every stale set reported so far must be dead in the current root
            match reachable(&unpruned_nodes, version) {
                Err(e) => {
                    violation = Some(fail("c18.unpruned_tree_node_missing", format!("after commit {}: {}", version, e)));
                    break;
                }
                Ok((reach, _)) => {
                    for (v, stale) in &stale_by_version {
                        stats.add("stale_keys_checked_against_later_roots", stale.len() as u64);
                        if let Some(k) = stale.iter().find(|k| reach.contains(*k)) {
                            violation = Some(fail(
                                "c18.stale_part_still_reachable",
                                format!("node (version {}, nibble path {:?}) was reported stale by commit {} but is reachable from the root of version {}", k.0, k.1, v, version),
                            ));
                            break;
                        }
                    }
                    if violation.is_some() {
                        break;
                    }
                }
            }
        }
        RunOutcome {
            steps: steps.taken,
            violation,
            stats,
            digest,
        }
    }

    fn simplify_step(&self, step: &Step) -> Vec<Step> {
        match step {
            Step::Commit(c) => commit_simplifications(c).into_iter().map(Step::Commit).collect(),
            Step::Wipe { .. } => vec![],
        }
    }
}
