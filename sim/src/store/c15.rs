//! C15 — all substate store implementations are observationally equivalent.

use super::c14::compare_with_model;
use super::*;
use crate::simkit::*;
use radix_substate_store_impls::memory_db::InMemorySubstateDatabase;
use radix_substate_store_impls::rocks_db::RocksdbSubstateStore;
use radix_substate_store_impls::rocks_db_with_merkle_tree::{Options, RocksDBWithMerkleTreeSubstateStore};
use serde_json::json;
use std::collections::BTreeSet;
use std::path::PathBuf;
use std::sync::atomic::{AtomicU64, Ordering};

#[derive(Clone, Debug, Serialize, Deserialize)]
pub enum Step {
    Commit(Commit),
    /// F16: close and reopen the RocksDB stores (bit 0: plain, bit 1: with Merkle tree).
    Reopen { which: u8 },
}

#[derive(Clone, Debug, Serialize, Deserialize)]
pub struct Cfg {
    pub universe: Universe,
    pub node_pool: Vec<Hex>,
    pub n_steps: usize,
    pub reopen_permille: u32,
    /// Whether the Merkle-tree store takes part (its tree needs prefix-free keys).
    pub with_merkle: bool,
}

pub struct C15;

static SEQ: AtomicU64 = AtomicU64::new(0);
fn fresh_dir(tag: &str) -> PathBuf {
    scratch_root().join(format!("c15-{}-{}", tag, SEQ.fetch_add(1, Ordering::Relaxed)))
}

fn opts() -> Options {
    let mut o = Options::default();
    o.create_if_missing(true);
    o.create_missing_column_families(true);
    o.set_max_file_opening_threads(1);
    o
}
fn open_plain(dir: &PathBuf) -> RocksdbSubstateStore {
    RocksdbSubstateStore::with_options(&opts(), dir.clone())
}
fn open_merkle(dir: &PathBuf) -> RocksDBWithMerkleTreeSubstateStore {
    RocksDBWithMerkleTreeSubstateStore::with_options(&opts(), dir.clone(), true)
}

/// The in-memory store's observable content, read through its public API only.
fn observe<D: SubstateDatabase + ListableSubstateDatabase>(db: &D) -> (Model, BTreeSet<(Vec<u8>, u8)>, usize) {
    let parts: Vec<DbPartitionKey> = db.list_partition_keys().collect();
    let n = parts.len();
    let set: BTreeSet<(Vec<u8>, u8)> = parts.iter().map(|p| (p.node_key.clone(), p.partition_num)).collect();
    (dump(db), set, n)
}

impl World for C15 {
    type Step = Step;
    type Cfg = Cfg;
    fn property(&self) -> &'static str {
        "C15"
    }
    fn world(&self) -> &'static str {
        "store"
    }
    fn rule(&self) -> String {
        "Per run: the same random commit history (resets, deleting a partition's last substate, partitions 0/255, node keys differing only in length or last byte, sort keys of 0x00.. / 0xff..) is applied to the in-memory store, RocksdbSubstateStore and RocksDBWithMerkleTreeSubstateStore, with close/reopen of the RocksDB stores at random points. After every step: the in-memory store's observable content (its own listing) is taken as the reference and every other store must return identical gets for every key ever mentioned, identical listings from every cursor, and the identical SET of partition keys (also no duplicates in a store's partition listing). evaluations = store operations (commit/reopen) x stores; distinct = distinct (state digest, step kind).".into()
    }
    fn assumptions(&self) -> Vec<String> {
        vec![
            "When the Merkle-tree store takes part, node and sort keys are fixed-length per tier (its tree needs prefix-free keys, as the real key mapper produces); variable-length keys are exercised on the in-memory/RocksDB pair.".into(),
            "list_partition_keys is compared as a set (the stores legitimately enumerate in different orders).".into(),
        ]
    }
    fn real_vs_stub(&self) -> serde_json::Value {
        json!({"real": ["InMemorySubstateDatabase", "RocksdbSubstateStore", "RocksDBWithMerkleTreeSubstateStore", "RocksDB (close/reopen from directory)"],
               "stub_or_ours": ["commit generator", "cursor enumeration"]})
    }
    fn probes(&self) -> Vec<&'static str> {
        vec!["fault.reopen_fired", "commit.with_reset", "partition_emptied_by_delete", "variable_length_node_keys", "with_merkle_store", "listings_from_cursor"]
    }
    fn budget(&self, tier: Tier) -> (u64, u64) {
        match tier {
            Tier::Quick => (9000, 40),
            Tier::Thorough => (40_000, 900),
        }
    }
    fn gen_cfg(&self, rng: &mut Rng, tier: Tier, _run: u64) -> Cfg {
        let mut universe = Universe::draw(rng);
        let with_merkle = rng.chance(2, 3);
        universe.max_changes = universe.max_changes.min(20);
        let mut pool = universe.node_pool(rng);
        if !with_merkle {
            // node keys that differ only in length or last byte; sort keys of varying length
            let base = pool[0].clone();
            let mut longer = base.clone();
            longer.push(0x00);
            let mut longer2 = base.clone();
            longer2.push(0xff);
            let mut shorter = base.clone();
            shorter.pop();
            pool.push(longer);
            pool.push(longer2);
            pool.push(shorter);
            pool.push(vec![]);
        }
        Cfg {
            universe,
            node_pool: pool.into_iter().map(Hex).collect(),
            n_steps: rng.range(2, if tier == Tier::Quick { 10 } else { 30 }) as usize,
            reopen_permille: *rng.pick(&[0u32, 100, 300]),
            with_merkle,
        }
    }

    fn run(&self, cfg: &Cfg, mode: Mode<Step>) -> RunOutcome<Step> {
        let mut steps = Steps::new(mode);
        let mut stats = Stats::default();
        let mut digest = 0u64;
        let nodes: Vec<Vec<u8>> = cfg.node_pool.iter().map(|h| h.0.clone()).collect();
        if cfg.with_merkle {
            stats.bump("with_merkle_store");
        } else {
            stats.bump("variable_length_node_keys");
        }
        let mut mem = InMemorySubstateDatabase::standard();
        let dir_a = fresh_dir("plain");
        let dir_b = fresh_dir("merkle");
        let _ = std::fs::remove_dir_all(&dir_a);
        let _ = std::fs::remove_dir_all(&dir_b);
        std::fs::create_dir_all(&dir_a).unwrap();
        let mut plain = Some(open_plain(&dir_a));
        let mut merkle = if cfg.with_merkle {
            Some(open_merkle(&dir_b))
        } else {
            None
        };
        let mut shadow = Model::new(); // generator bias only
        let mut mentioned: BTreeSet<Key> = BTreeSet::new();
        let mut violation = None;
        let mut n = 0;
        loop {
            let step = steps.next(|rng| {
                if n >= cfg.n_steps {
                    return None;
                }
                if rng.below(1000) < cfg.reopen_permille as u64 {
                    Some(Step::Reopen { which: rng.range(1, 3) as u8 })
                } else {
                    let mut c = cfg.universe.gen_commit(rng, &nodes, &shadow, !cfg.with_merkle);
                    if !cfg.with_merkle && rng.chance(1, 3) {
                        // sort keys of other lengths / extremes
                        if let Some(nu) = c.nodes.first_mut() {
                            if let Some(p) = nu.parts.first_mut() {
                                if !p.reset || true {
                                    let extremes: [Vec<u8>; 4] = [vec![0x00], vec![0xff; 3], vec![0x00; 2], vec![0xff]];
                                    p.sets.push((Hex(rng.pick(&extremes).clone()), Some(Hex(vec![7]))));
                                }
                            }
                        }
                    }
                    Some(Step::Commit(c))
                }
            });
            n += 1;
            let Some(step) = step else { break };
            let ix = steps.index();
            let kind;
            match &step {
                Step::Commit(c) => {
                    kind = 1u64;
                    let du = c.to_database_updates();
                    for nu in &c.nodes {
                        for p in &nu.parts {
                            for (k, _) in &p.sets {
                                mentioned.insert((nu.node.0.clone(), p.part, k.0.clone()));
                            }
                            if p.reset {
                                stats.bump("commit.with_reset");
                            }
                        }
                    }
                    let before = model_partitions(&shadow);
                    c.apply_to(&mut shadow);
                    let after = model_partitions(&shadow);
                    if before.iter().any(|p| !after.contains(p))
                        && c.nodes.iter().any(|n| n.parts.iter().any(|p| !p.reset))
                    {
                        stats.bump("partition_emptied_by_delete");
                    }
                    mem.commit(&du);
                    plain.as_mut().unwrap().commit(&du);
                    stats.evaluations += 2;
                    if let Some(m) = merkle.as_mut() {
                        let r = catch_quiet(|| m.commit(&du));
                        stats.evaluations += 1;
                        if let Err(p) = r {
                            violation = Some(Violation {
                                monitor: "c15.merkle_commit_panicked".into(),
                                step: ix,
                                detail: format!("commit on the Merkle store panicked: {}", p),
                                signature: "c15.merkle_commit_panicked".into(),
                            });
                            break;
                        }
                    }
                }
                Step::Reopen { which } => {
                    kind = 2;
                    if which & 1 != 0 {
                        drop(plain.take());
                        plain = Some(open_plain(&dir_a));
                        stats.bump("fault.reopen_fired");
                        stats.evaluations += 1;
                    }
                    if which & 2 != 0 && merkle.is_some() {
                        drop(merkle.take());
                        merkle = Some(open_merkle(&dir_b));
                        stats.bump("fault.reopen_fired");
                        stats.evaluations += 1;
                    }
                }
            }
            // reference = what the in-memory store shows through its own API
            let (reference, ref_parts, ref_n) = observe(&mem);
            let fail = |monitor: &str, detail: String| Violation {
                monitor: monitor.into(),
                step: ix,
                detail,
                signature: monitor.into(),
            };
            if ref_n != ref_parts.len() {
                violation = Some(fail("c15.duplicate_partition_keys", "in-memory store lists a partition twice".into()));
                break;
            }
            let mut check = |name: &str, m: Model, parts: BTreeSet<(Vec<u8>, u8)>, cnt: usize, cmp: Result<(), String>| -> Option<Violation> {
                if cnt != parts.len() {
                    return Some(fail("c15.duplicate_partition_keys", format!("{} lists a partition twice", name)));
                }
                if parts != ref_parts {
                    return Some(fail(
                        "c15.partition_sets_differ",
                        format!("{} lists partitions {:?} but the in-memory store lists {:?}", name,
                            parts.iter().map(|(n, p)| format!("{}:{}", hex::encode(n), p)).collect::<Vec<_>>(),
                            ref_parts.iter().map(|(n, p)| format!("{}:{}", hex::encode(n), p)).collect::<Vec<_>>()),
                    ));
                }
                if let Err(e) = cmp {
                    return Some(fail("c15.reads_differ", format!("{} vs in-memory store: {}", name, e)));
                }
                if m != reference {
                    return Some(fail("c15.contents_differ", format!("{} holds {} substates, in-memory store {}", name, m.len(), reference.len())));
                }
                None
            };
            let mut st = Stats::default();
            {
                let p = plain.as_ref().unwrap();
                let (m, parts, cnt) = observe(p);
                let cmp = compare_with_model(p, &reference, &mentioned, &mut st);
                if let Some(v) = check("RocksdbSubstateStore", m, parts, cnt, cmp) {
                    violation = Some(v);
                    break;
                }
            }
            if let Some(mk) = merkle.as_ref() {
                let (m, parts, cnt) = observe(mk);
                let cmp = compare_with_model(mk, &reference, &mentioned, &mut st);
                if let Some(v) = check("RocksDBWithMerkleTreeSubstateStore", m, parts, cnt, cmp) {
                    violation = Some(v);
                    break;
                }
            }
            // the in-memory store's gets / cursor listings against its own full listing
            if let Err(e) = compare_with_model(&mem, &reference, &mentioned, &mut st) {
                violation = Some(fail("c15.reads_differ", format!("in-memory store is not self-consistent: {}", e)));
                break;
            }
            stats.merge(&st);
            let md = model_digest(&reference);
            stats.distinct.insert(prng::mix(md, kind));
            digest = prng::mix(digest, md);
        }
        drop(plain);
        drop(merkle);
        let _ = std::fs::remove_dir_all(&dir_a);
        let _ = std::fs::remove_dir_all(&dir_b);
        RunOutcome {
            steps: steps.taken,
            violation,
            stats,
            digest,
        }
    }

    fn simplify_step(&self, step: &Step) -> Vec<Step> {
        match step {
            Step::Commit(c) => commit_simplifications(c).into_iter().map(Step::Commit).collect(),
            _ => vec![],
        }
    }
}
