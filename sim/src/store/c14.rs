//! C14 — a database overlay behaves like the database with the commits applied.

use super::*;
use crate::simkit::*;
use radix_substate_store_impls::memory_db::InMemorySubstateDatabase;
use radix_substate_store_impls::substate_database_overlay::*;
use serde_json::json;
use std::collections::BTreeSet;

#[derive(Clone, Debug, Serialize, Deserialize)]
pub enum Step {
    /// Commit into the top of the stack (the base store when no overlay is pushed).
    Commit(Commit),
    /// Push an overlay on top of the current top (at most two overlays deep).
    Push,
    /// F9 merge: commit_overlay_into_root_store of the top overlay, then pop it.
    Merge,
    /// F9 discard: drop the top overlay with everything committed to it.
    Discard,
}

#[derive(Clone, Debug, Serialize, Deserialize)]
pub struct Cfg {
    pub universe: Universe,
    pub node_pool: Vec<Hex>,
    pub n_steps: usize,
    pub base_commits: usize,
}

type Base = InMemorySubstateDatabase;
type O1 = OwnedSubstateDatabaseOverlay<Base>;
type O2 = OwnedSubstateDatabaseOverlay<O1>;

enum Stack {
    L0(Base),
    L1(O1),
    L2(O2),
    Taken,
}

pub struct C14;

fn cursors_for(keys: &BTreeSet<Vec<u8>>) -> Vec<Option<Vec<u8>>> {
    let mut out: BTreeSet<Option<Vec<u8>>> = BTreeSet::new();
    out.insert(None);
    out.insert(Some(vec![]));
    out.insert(Some(vec![0xff; 4]));
    for k in keys {
        out.insert(Some(k.clone()));
        // successor: k || 0x00 ; predecessor-ish: k with last byte decremented / truncated
        let mut s = k.clone();
        s.push(0);
        out.insert(Some(s));
        if let Some(last) = k.last() {
            let mut p = k.clone();
            if *last > 0 {
                *p.last_mut().unwrap() = last - 1;
                p.push(0xff);
            } else {
                p.pop();
            }
            out.insert(Some(p));
            let mut q = k.clone();
            if *last < 0xff {
                *q.last_mut().unwrap() = last + 1;
                out.insert(Some(q));
            }
        }
    }
    out.into_iter().collect()
}

/// Compares every read and every listing (from the start and from every cursor) of `db` with
/// the model. `mentioned` = every (node, partition, sort key) ever mentioned in the run.
pub fn compare_with_model<D: SubstateDatabase>(
    db: &D,
    model: &Model,
    mentioned: &BTreeSet<Key>,
    stats: &mut Stats,
) -> Result<(), String> {
    for k in mentioned {
        let got = db.get_raw_substate_by_db_key(
            &DbPartitionKey {
                node_key: k.0.clone(),
                partition_num: k.1,
            },
            &DbSortKey(k.2.clone()),
        );
        if got.as_ref() != model.get(k) {
            return Err(format!(
                "get(node {}, partition {}, sort {}) = {:?} but the database with the commits applied holds {:?}",
                hex::encode(&k.0), k.1, hex::encode(&k.2), got.map(hex::encode), model.get(k).map(hex::encode)
            ));
        }
    }
    let parts: BTreeSet<(Vec<u8>, u8)> = mentioned.iter().map(|k| (k.0.clone(), k.1)).collect();
    for (node, part) in parts {
        let keys: BTreeSet<Vec<u8>> = mentioned
            .iter()
            .filter(|k| k.0 == node && k.1 == part)
            .map(|k| k.2.clone())
            .collect();
        let pk = DbPartitionKey {
            node_key: node.clone(),
            partition_num: part,
        };
        for cursor in cursors_for(&keys) {
            let got: Vec<(Vec<u8>, Vec<u8>)> = db
                .list_raw_values_from_db_key(&pk, cursor.as_ref().map(|c| DbSortKey(c.clone())).as_ref())
                .map(|(k, v)| (k.0, v))
                .collect();
            let from = cursor.clone().unwrap_or_default();
            let exp: Vec<(Vec<u8>, Vec<u8>)> = model
                .range((node.clone(), part, from)..)
                .take_while(|(k, _)| k.0 == node && k.1 == part)
                .map(|(k, v)| (k.2.clone(), v.clone()))
                .collect();
            stats.bump("listings_compared");
            if cursor.is_some() {
                stats.bump("listings_from_cursor");
            }
            if got != exp {
                return Err(format!(
                    "listing of (node {}, partition {}) from cursor {:?} returns {} entries {:?} but the database with the commits applied lists {} entries {:?}",
                    hex::encode(&node), part, cursor.map(hex::encode), got.len(),
                    got.iter().map(|(k, _)| hex::encode(k)).collect::<Vec<_>>(),
                    exp.len(), exp.iter().map(|(k, _)| hex::encode(k)).collect::<Vec<_>>()
                ));
            }
        }
    }
    Ok(())
}

impl World for C14 {
    type Step = Step;
    type Cfg = Cfg;
    fn property(&self) -> &'static str {
        "C14"
    }
    fn world(&self) -> &'static str {
        "store"
    }
    fn rule(&self) -> String {
        "Per run: random base content in the in-memory store, then a random interleaving of commits (sets, deletes incl. of absent keys, empty and non-empty resets, reset-then-delta and delta-then-reset within and across commits), overlay push (two deep), merge into root and discard. After every step every key ever mentioned is read and every mentioned partition is listed from the start and from every cursor position (each key, its neighbours, below the first, above the last) through the top of the stack and compared with a BTreeMap model of 'the base with the commits applied'; after merge/discard the layer beneath is compared too. evaluations = steps executed against the overlay; distinct = distinct (model digest, step kind, stack depth).".into()
    }
    fn assumptions(&self) -> Vec<String> {
        vec!["The base store is the in-memory store (C15 establishes that the others are equivalent to it).".into()]
    }
    fn real_vs_stub(&self) -> serde_json::Value {
        json!({"real": ["SubstateDatabaseOverlay (get, list, commit, commit_overlay_into_root_store, nesting)", "merge_database_updates", "OverlayingIterator", "InMemorySubstateDatabase"],
               "stub_or_ours": ["commit generator", "BTreeMap model stack"]})
    }
    fn probes(&self) -> Vec<&'static str> {
        vec!["push", "merge", "discard", "commit.depth1", "commit.depth2", "commit.with_reset", "delete_of_absent_key", "reset_then_delta_same_partition", "delta_then_reset_same_partition", "listings_from_cursor"]
    }
    fn budget(&self, tier: Tier) -> (u64, u64) {
        match tier {
            Tier::Quick => (150_000, 40),
            Tier::Thorough => (600_000, 900),
        }
    }
    fn gen_cfg(&self, rng: &mut Rng, tier: Tier, _run: u64) -> Cfg {
        let mut universe = Universe::draw(rng);
        universe.max_changes = universe.max_changes.min(12);
        // variable sort-key lengths are fine here (no tree involved)
        let node_pool = universe.node_pool(rng).into_iter().map(Hex).collect();
        Cfg {
            universe,
            node_pool,
            n_steps: rng.range(2, if tier == Tier::Quick { 14 } else { 40 }) as usize,
            base_commits: rng.range(0, 3) as usize,
        }
    }

    fn run(&self, cfg: &Cfg, mode: Mode<Step>) -> RunOutcome<Step> {
        let mut steps = Steps::new(mode);
        let mut stats = Stats::default();
        let mut digest = 0u64;
        let nodes: Vec<Vec<u8>> = cfg.node_pool.iter().map(|h| h.0.clone()).collect();
        let mut stack = Stack::L0(Base::standard());
        let mut models: Vec<Model> = vec![Model::new()];
        let mut mentioned: BTreeSet<Key> = BTreeSet::new();
        // per overlay layer: partitions that have seen a reset / a delta since the push
        let mut layer_reset: Vec<BTreeSet<(Vec<u8>, u8)>> = vec![BTreeSet::new()];
        let mut layer_delta: Vec<BTreeSet<(Vec<u8>, u8)>> = vec![BTreeSet::new()];
        let mut violation = None;
        let mut n = 0;
        loop {
            let depth = models.len() - 1;
            let step = steps.next(|rng| {
                if n >= cfg.n_steps + cfg.base_commits {
                    return None;
                }
                if n < cfg.base_commits {
                    return Some(Step::Commit(cfg.universe.gen_commit(rng, &nodes, models.last().unwrap(), true)));
                }
                let r = rng.below(100);
                Some(if depth == 0 {
                    if r < 60 { Step::Push } else { Step::Commit(cfg.universe.gen_commit(rng, &nodes, models.last().unwrap(), true)) }
                } else if r < 70 {
                    Step::Commit(cfg.universe.gen_commit(rng, &nodes, models.last().unwrap(), true))
                } else if r < 80 && depth < 2 {
                    Step::Push
                } else if r < 90 {
                    Step::Merge
                } else {
                    Step::Discard
                })
            });
            n += 1;
            let Some(step) = step else { break };
            let ix = steps.index();
            let kind;
            match &step {
                Step::Commit(c) => {
                    kind = 1u64;
                    let du = c.to_database_updates();
                    for nu in &c.nodes {
                        for p in &nu.parts {
                            let pk = (nu.node.0.clone(), p.part);
                            for (k, v) in &p.sets {
                                let key = (nu.node.0.clone(), p.part, k.0.clone());
                                if v.is_none() && !models.last().unwrap().contains_key(&key) {
                                    stats.bump("delete_of_absent_key");
                                }
                                mentioned.insert(key);
                            }
                            if depth > 0 {
                                if p.reset {
                                    if layer_delta[depth].contains(&pk) {
                                        stats.bump("delta_then_reset_same_partition");
                                    }
                                    layer_reset[depth].insert(pk);
                                } else {
                                    if layer_reset[depth].contains(&pk) {
                                        stats.bump("reset_then_delta_same_partition");
                                    }
                                    layer_delta[depth].insert(pk);
                                }
                            }
                            if p.reset {
                                stats.bump("commit.with_reset");
                            }
                        }
                    }
                    match &mut stack {
                        Stack::L0(b) => b.commit(&du),
                        Stack::L1(o) => {
                            stats.bump("commit.depth1");
                            o.commit(&du)
                        }
                        Stack::L2(o) => {
                            stats.bump("commit.depth2");
                            o.commit(&du)
                        }
                        Stack::Taken => unreachable!(),
                    }
                    c.apply_to(models.last_mut().unwrap());
                }
                Step::Push => {
                    kind = 2;
                    stack = match std::mem::replace(&mut stack, Stack::Taken) {
                        Stack::L0(b) => Stack::L1(O1::new_owned(b)),
                        Stack::L1(o) => Stack::L2(O2::new_owned(o)),
                        s @ Stack::L2(_) => s,
                        Stack::Taken => unreachable!(),
                    };
                    if models.len() < 3 {
                        let top = models.last().unwrap().clone();
                        models.push(top);
                        layer_reset.push(BTreeSet::new());
                        layer_delta.push(BTreeSet::new());
                        stats.bump("push");
                    }
                }
                Step::Merge => {
                    kind = 3;
                    stack = match std::mem::replace(&mut stack, Stack::Taken) {
                        Stack::L0(b) => Stack::L0(b),
                        Stack::L1(mut o) => {
                            o.commit_overlay_into_root_store();
                            Stack::L0(o.deconstruct().0)
                        }
                        Stack::L2(mut o) => {
                            o.commit_overlay_into_root_store();
                            Stack::L1(o.deconstruct().0)
                        }
                        Stack::Taken => unreachable!(),
                    };
                    if models.len() > 1 {
                        let top = models.pop().unwrap();
                        *models.last_mut().unwrap() = top;
                        let r = layer_reset.pop().unwrap();
                        let d = layer_delta.pop().unwrap();
                        let depth = models.len() - 1;
                        layer_reset[depth].extend(r);
                        layer_delta[depth].extend(d);
                        stats.bump("merge");
                    }
                }
                Step::Discard => {
                    kind = 4;
                    stack = match std::mem::replace(&mut stack, Stack::Taken) {
                        Stack::L0(b) => Stack::L0(b),
                        Stack::L1(o) => Stack::L0(o.deconstruct().0),
                        Stack::L2(o) => Stack::L1(o.deconstruct().0),
                        Stack::Taken => unreachable!(),
                    };
                    if models.len() > 1 {
                        models.pop();
                        layer_reset.pop();
                        layer_delta.pop();
                        stats.bump("discard");
                    }
                }
            }
            stats.evaluations += 1;
            let top = models.last().unwrap();
            let r = catch_quiet(|| {
                let mut st = Stats::default();
                let r = match &stack {
                    Stack::L0(b) => compare_with_model(b, top, &mentioned, &mut st),
                    Stack::L1(o) => compare_with_model(o, top, &mentioned, &mut st),
                    Stack::L2(o) => compare_with_model(o, top, &mentioned, &mut st),
                    Stack::Taken => unreachable!(),
                };
                (r, st)
            });
            let md = model_digest(top);
            stats.distinct.insert(prng::mix(md, prng::mix(kind, models.len() as u64)));
            digest = prng::mix(digest, md);
            let fail = |monitor: &str, detail: String| Violation {
                monitor: monitor.into(),
                step: ix,
                detail,
                signature: monitor.into(),
            };
            match r {
                Err(p) => {
                    violation = Some(fail("c14.read_panicked", format!("read through the overlay panicked: {}", p)));
                    break;
                }
                Ok((Err(e), _)) => {
                    let m = match step {
                        Step::Merge => "c14.merge_differs",
                        Step::Discard => "c14.discard_touched_base",
                        _ => "c14.overlay_differs",
                    };
                    violation = Some(fail(m, format!("stack depth {}: {}", models.len() - 1, e)));
                    break;
                }
                Ok((Ok(()), st)) => stats.merge(&st),
            }
        }
        RunOutcome {
            steps: steps.taken,
            violation,
            stats,
            digest,
        }
    }

    fn simplify_step(&self, step: &Step) -> Vec<Step> {
        match step {
            Step::Commit(c) => commit_simplifications(c).into_iter().map(Step::Commit).collect(),
            _ => vec![],
        }
    }
}
