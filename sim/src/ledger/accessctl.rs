//! C40 — access controller changes need two roles or an elapsed timer. Primary, recovery and
//! confirmation parties plus an outsider issue the full method set in seeded order while the
//! consensus driver moves the proposer clock to just before, exactly at and after the recovery
//! deadline. Oracle: a history model of proposals and attempts (built from the successful calls
//! only) justifies every change of the role rules and every loss of the controlled asset.

use super::monitors::*;
use super::node::*;
use super::steps::{consensus_round, View};
use crate::simkit::*;
use radix_common::prelude::*;
use radix_engine::blueprints::access_controller::latest::*;
use radix_engine::blueprints::access_controller::*;
use radix_engine::object_modules::role_assignment::*;
use radix_engine::system::system_substates::*;
use radix_engine::transaction::*;
use radix_engine_interface::blueprints::access_controller::*;
use radix_engine_interface::blueprints::consensus_manager::*;
use radix_engine_interface::prelude::*;
use radix_substate_store_interface::interface::*;
use radix_transactions::prelude::*;
use serde::{Deserialize, Serialize};
use serde_json::json;

/// Methods, in the order used by `Step::Call::method`.
const METHODS: [&str; 18] = [
    "create_proof",
    "initiate_recovery_as_primary",
    "initiate_recovery_as_recovery",
    "initiate_badge_withdraw_attempt_as_primary",
    "initiate_badge_withdraw_attempt_as_recovery",
    "quick_confirm_primary_role_recovery_proposal",
    "quick_confirm_recovery_role_recovery_proposal",
    "quick_confirm_primary_role_badge_withdraw_attempt",
    "quick_confirm_recovery_role_badge_withdraw_attempt",
    "timed_confirm_recovery",
    "cancel_primary_role_recovery_proposal",
    "cancel_recovery_role_recovery_proposal",
    "cancel_primary_role_badge_withdraw_attempt",
    "cancel_recovery_role_badge_withdraw_attempt",
    "lock_primary_role",
    "unlock_primary_role",
    "stop_timed_recovery",
    "mint_recovery_badges",
];

#[derive(Clone, Debug, Serialize, Deserialize)]
pub enum Step {
    /// badge sets 0..3 x roles (primary, recovery, confirmation), the controlled asset, the controller
    Setup { delay: Option<u32> },
    /// party 0 primary, 1 recovery, 2 confirmation, 3 outsider; `badge_set`: which generation of the
    /// party's badge is presented (normally the one in force); proposal = (badge set, delay)
    Call { party: u8, badge_set: u8, method: u8, proposal_set: u8, proposal_delay: Option<u32> },
    /// consensus driver: next round at clock + minutes*60000 + ms
    Tick { minutes: u32, ms: u32 },
    Restart,
}

#[derive(Clone, Debug, Serialize, Deserialize)]
pub struct Cfg {
    pub n_steps: usize,
    pub fault_permille: u32,
}

pub struct C40;

#[derive(Clone, Debug, PartialEq, Default)]
struct Model {
    locked: bool,
    primary_recovery: Option<(u8, Option<u32>)>,
    primary_withdraw: bool,
    /// proposal, and the minute after which a timed confirmation is allowed (None: untimed)
    recovery_recovery: Option<((u8, Option<u32>), Option<i64>)>,
    recovery_withdraw: bool,
    rule_set: u8,
    delay: Option<u32>,
    asset_present: bool,
}

fn role_rule(db: &Db, addr: &ComponentAddress, role: &str) -> Option<AccessRule> {
    let key = ModuleRoleKey::new(ModuleId::Main, RoleKey::new(role));
    let e: Option<KeyValueEntrySubstate<RoleAssignmentAccessRuleEntryPayload>> =
        db.get_substate(addr.as_node_id(), ROLE_ASSIGNMENT_BASE_PARTITION.at_offset(ROLE_ASSIGNMENT_ROLE_DEF_PARTITION_OFFSET).unwrap(), SubstateKey::Map(scrypto_encode(&key).unwrap()));
    e.and_then(|e| e.into_value()).map(|p| p.fully_update_and_into_latest_version())
}

fn controller_state(db: &Db, addr: &ComponentAddress) -> Option<AccessControllerV2Substate> {
    field::<AccessControllerV2StateFieldPayload>(db, addr.as_node_id(), MAIN_BASE_PARTITION, 0).map(|p| p.fully_update_and_into_latest_version())
}

impl World for C40 {
    type Step = Step;
    type Cfg = Cfg;
    fn property(&self) -> &'static str {
        "C40"
    }
    fn world(&self) -> &'static str {
        "ledger"
    }
    fn rule(&self) -> String {
        "Per run: an access controller over a controlled asset with role rules require(badge) for primary / recovery / confirmation (three generations of badges for rule rotation) and a timed-recovery delay (none, 1, 2, 10 minutes); the three role holders and an outsider issue all 18 methods in seeded order with seeded proposals (rule set, delay), presenting the badge in force or a stale one, with injected system errors (F5) and restarts (F8); the consensus driver moves the proposer clock by 0 ms .. minutes, landing just before, exactly at and after recovery deadlines. Oracle: a history model built only from the successful calls (who proposed which rule set, which attempts are open, the deadline minute of a timed recovery, lock state). After every transaction the role rules, the stored delay and the controlled asset are read from the store: the rules may change only in a successful quick-confirm by a role other than the proposer that passes exactly the recorded proposal, or in a timed confirmation by the recovery role of its own recorded timed proposal at or after its deadline minute, and then to exactly the proposed rules; the controlled asset may leave only through a quick-confirmed badge withdraw attempt of the other side; create_proof never succeeds while the model says the primary role is locked; a call whose badge does not satisfy a role allowed for that method never succeeds; failed calls change nothing; after every success the stored state tuple equals the model. evaluations = engine executions; distinct = distinct (method, caller role, model state class, outcome).".into()
    }
    fn assumptions(&self) -> Vec<String> {
        vec!["Only the latest access controller (v2 state machine) is exercised; recovery-fee vault methods are not part of the workload.".into()]
    }
    fn real_vs_stub(&self) -> serde_json::Value {
        json!({"real": ["access controller blueprint + state machine", "role assignment module, auth zone", "consensus manager clock (next_round, compare_current_time)", "engine"], "stub_or_ours": ["clients", "consensus driver and clock", "history model"]})
    }
    fn probes(&self) -> Vec<&'static str> {
        vec![
            "ok.quick_confirm_primary_role_recovery_proposal", "ok.quick_confirm_recovery_role_recovery_proposal", "ok.timed_confirm_recovery", "ok.quick_confirm_primary_role_badge_withdraw_attempt", "ok.quick_confirm_recovery_role_badge_withdraw_attempt",
            "ok.create_proof", "ok.lock_primary_role", "ok.unlock_primary_role", "ok.stop_timed_recovery", "ok.cancel_recovery_role_recovery_proposal", "refused.create_proof_while_locked", "refused.timed_confirm_before_deadline",
            "refused.confirm_with_other_proposal", "refused.wrong_role", "refused.stale_badge", "timed.confirm_exactly_at_deadline_minute", "rules.rotated", "fault.inject_costing_error_fired", "fault.restart_fired", "tick",
        ]
    }
    fn budget(&self, tier: Tier) -> (u64, u64) {
        match tier {
            Tier::Quick => (1000, 45),
            Tier::Thorough => (16_000, 900),
        }
    }
    fn gen_cfg(&self, rng: &mut Rng, _tier: Tier, _run: u64) -> Cfg {
        Cfg { n_steps: rng.range(40, 160) as usize, fault_permille: *rng.pick(&[0u32, 0, 60, 150]) }
    }

    fn run(&self, cfg: &Cfg, mode: Mode<Step>) -> RunOutcome<Step> {
        let mut steps = Steps::new(mode);
        let mut stats = Stats::default();
        let mut node = Node::from_base();
        let view = View::new();
        // badges[set][role]
        let mut badges: Vec<[ResourceAddress; 3]> = vec![];
        let mut asset: Option<ResourceAddress> = None;
        let mut ac: Option<ComponentAddress> = None;
        let mut model = Model::default();
        let mut clock_ms: i64 = 1;
        let mut digest = 0u64;
        let mut violation = None;
        let mut n = 0usize;
        for p in view.parties.iter().take(4) {
            let m = ManifestBuilder::new().lock_fee_from_faucet().get_free_xrd_from_faucet().try_deposit_entire_worktop_or_abort(p.account, None).build();
            let nonce = node.next_nonce();
            if let Ok(exe) = TxSpec::new(m, nonce, btreeset![]).build(&node.validator) {
                if let Ok(r) = node.execute(&exe, &ExecOpts::default()) {
                    node.commit(&r);
                }
            }
        }
        let mut fault_rng = Rng::from_u64(cfg.n_steps as u64 ^ 0xC40);
        let rule_of = |badges: &Vec<[ResourceAddress; 3]>, set: u8, role: usize| -> AccessRule { rule!(require(badges[set as usize % 3][role])) };
        loop {
            let step = steps.next(|rng| {
                if n > cfg.n_steps {
                    return None;
                }
                if n == 0 || model.rule_set == 99 {
                    // (a retired controller - badge withdrawn - is replaced by a fresh one)
                    return Some(Step::Setup { delay: *rng.pick(&[None, Some(1u32), Some(2), Some(10)]) });
                }
                Some(match rng.below(20) {
                    0..=3 => Step::Tick { minutes: *rng.pick(&[0u32, 0, 1, 1, 2, 9, 10, 11]), ms: *rng.pick(&[0u32, 1, 59_999, 30_000]) },
                    4 => Step::Restart,
                    _ => {
                        // mostly sensible: the proposal that is open, the badge in force
                        let party = rng.below(4) as u8;
                        let open = model.primary_recovery.or(model.recovery_recovery.map(|x| x.0));
                        let (ps, pd) = match (open, rng.chance(3, 4)) {
                            (Some(p), true) => p,
                            _ => (rng.below(3) as u8, *rng.pick(&[None, Some(1u32), Some(2), Some(10)])),
                        };
                        Step::Call { party, badge_set: if rng.chance(9, 10) { model.rule_set } else { rng.below(3) as u8 }, method: rng.below(METHODS.len() as u64) as u8, proposal_set: ps, proposal_delay: pd }
                    }
                })
            });
            n += 1;
            let Some(step) = step else { break };
            let ix = steps.index();
            let mk = |monitor: &str, detail: String| Violation { monitor: monitor.into(), step: ix, detail, signature: monitor.into() };
            let fault = if fault_rng.below(1000) < cfg.fault_permille as u64 { Some(fault_rng.range(1, 4000)) } else { None };
            match step.clone() {
                Step::Restart => {
                    node.restart();
                    stats.bump("fault.restart_fired");
                }
                Step::Tick { minutes, ms } => {
                    let (round, _) = consensus_round(&node.db);
                    let new_clock = clock_ms + minutes as i64 * 60_000 + ms as i64;
                    let m = ManifestBuilder::new_system_v1()
                        .call_method(
                            CONSENSUS_MANAGER,
                            CONSENSUS_MANAGER_NEXT_ROUND_IDENT,
                            ConsensusManagerNextRoundInput { round: Round::of(round + 1), proposer_timestamp_ms: new_clock, leader_proposal_history: LeaderProposalHistory { gap_round_leaders: vec![], current_leader: 0, is_fallback: false } },
                        )
                        .build();
                    let nonce = node.next_nonce();
                    let exe = system_executable(m, nonce, &node.validator);
                    let mut o = ExecOpts::default();
                    o.system_tx = true;
                    stats.evaluations += 1;
                    if let Ok(r) = node.execute(&exe, &o) {
                        node.commit(&r);
                        if matches!(&r.result, TransactionResult::Commit(c) if matches!(c.outcome, TransactionOutcome::Success(_))) {
                            clock_ms = new_clock;
                            stats.bump("tick");
                        }
                    }
                }
                Step::Setup { delay } => {
                    if ac.is_some() && model.rule_set != 99 {
                        continue;
                    }
                    // badges: party `role` holds its badge of every generation; the asset goes into the controller
                    let mut all = vec![];
                    for _set in 0..3 {
                        for role in 0..3usize {
                            let m = ManifestBuilder::new()
                                .lock_fee_from_faucet()
                                .create_fungible_resource(OwnerRole::None, true, 0, FungibleResourceRoles::default(), metadata!(), Some(Decimal::from(10u32)))
                                .try_deposit_entire_worktop_or_abort(view.parties[role].account, None)
                                .build();
                            let nonce = node.next_nonce();
                            if let Ok(exe) = TxSpec::new(m, nonce, btreeset![]).build(&node.validator) {
                                if let Ok(r) = node.execute(&exe, &ExecOpts::default()) {
                                    node.commit(&r);
                                    if let TransactionResult::Commit(c) = &r.result {
                                        if let Some(a) = c.new_resource_addresses().first() {
                                            all.push(*a);
                                        }
                                    }
                                }
                            }
                        }
                    }
                    if all.len() != 9 {
                        violation = Some(mk("c40.harness_setup_failed", format!("{} badges", all.len())));
                        break;
                    }
                    badges = (0..3).map(|s| [all[s * 3], all[s * 3 + 1], all[s * 3 + 2]]).collect();
                    let m = ManifestBuilder::new()
                        .lock_fee_from_faucet()
                        .create_fungible_resource(OwnerRole::None, true, 0, FungibleResourceRoles::default(), metadata!(), Some(Decimal::from(1u32)))
                        .try_deposit_entire_worktop_or_abort(view.parties[0].account, None)
                        .build();
                    let nonce = node.next_nonce();
                    if let Ok(exe) = TxSpec::new(m, nonce, btreeset![]).build(&node.validator) {
                        if let Ok(r) = node.execute(&exe, &ExecOpts::default()) {
                            node.commit(&r);
                            if let TransactionResult::Commit(c) = &r.result {
                                asset = c.new_resource_addresses().first().copied();
                            }
                        }
                    }
                    let Some(asset_addr) = asset else {
                        violation = Some(mk("c40.harness_setup_failed", "asset".into()));
                        break;
                    };
                    let m = ManifestBuilder::new()
                        .lock_fee_from_faucet()
                        .withdraw_from_account(view.parties[0].account, asset_addr, Decimal::ONE)
                        .take_all_from_worktop(asset_addr, "a")
                        .with_name_lookup(|b, l| b.create_access_controller(l.bucket("a"), rule_of(&badges, 0, 0), rule_of(&badges, 0, 1), rule_of(&badges, 0, 2), delay))
                        .build();
                    let nonce = node.next_nonce();
                    if let Ok(exe) = TxSpec::new(m, nonce, btreeset![view.parties[0].proof.clone()]).build(&node.validator) {
                        if let Ok(r) = node.execute(&exe, &ExecOpts::default()) {
                            node.commit(&r);
                            if let TransactionResult::Commit(c) = &r.result {
                                ac = c.new_component_addresses().first().copied();
                            }
                        }
                    }
                    if ac.is_none() {
                        violation = Some(mk("c40.harness_setup_failed", "controller".into()));
                        break;
                    }
                    model = Model { rule_set: 0, delay, asset_present: true, ..Default::default() };
                }
                Step::Call { party, badge_set, method, proposal_set, proposal_delay } => {
                    let (Some(acx), Some(asset_addr)) = (ac, asset) else { continue };
                    let party = party as usize % 4;
                    let method_ix = method as usize % METHODS.len();
                    let mname = METHODS[method_ix];
                    let pset = proposal_set % 3;
                    let proposal = (pset, proposal_delay);
                    let rule_set = RuleSet { primary_role: rule_of(&badges, pset, 0), recovery_role: rule_of(&badges, pset, 1), confirmation_role: rule_of(&badges, pset, 2) };
                    let caller = &view.parties[party];
                    let mut b = ManifestBuilder::new().lock_fee_from_faucet();
                    if party < 3 {
                        b = b.create_proof_from_account_of_amount(caller.account, badges[badge_set as usize % 3][party], Decimal::ONE);
                    }
                    let takes_proposal = matches!(method_ix, 1 | 2 | 5 | 6 | 9 | 16);
                    b = if takes_proposal {
                        b.call_method(acx, mname, manifest_args!(rule_set.clone(), proposal_delay))
                    } else if method_ix == 17 {
                        b.call_method(acx, mname, manifest_args!(btreeset![NonFungibleLocalId::integer(1000 + n as u64)]))
                    } else {
                        b.call_method(acx, mname, manifest_args!())
                    };
                    let m = b.try_deposit_entire_worktop_or_abort(caller.account, None).build();
                    // ---- before
                    let rules_before: Vec<Option<AccessRule>> = ["primary", "recovery", "confirmation"].iter().map(|r| role_rule(&node.db, &acx, r)).collect();
                    let st_before = controller_state(&node.db, &acx);
                    let asset_before = st_before.as_ref().and_then(|s| fungible_vault_balance(&node.db, &s.controlled_asset.0 .0)).unwrap_or(Decimal::ZERO);
                    let nonce = node.next_nonce();
                    let Ok(exe) = TxSpec::new(m, nonce, btreeset![caller.proof.clone()]).build(&node.validator) else { continue };
                    let mut o = ExecOpts::default();
                    o.inject_at = fault;
                    o.kernel_trace = std::env::var("VERIF_KERNEL_TRACE").is_ok();
                    stats.evaluations += 1;
                    let r = match node.execute(&exe, &o) {
                        Ok(r) => r,
                        Err(p) => {
                            violation = Some(mk("c40.engine_panicked", format!("{:?}: {}", step, p)));
                            break;
                        }
                    };
                    if fault.is_some() && super::injection_fired(&r) {
                        stats.bump("fault.inject_costing_error_fired");
                    }
                    node.commit(&r);
                    let success = matches!(&r.result, TransactionResult::Commit(c) if matches!(c.outcome, TransactionOutcome::Success(_)));
                    let rules_after: Vec<Option<AccessRule>> = ["primary", "recovery", "confirmation"].iter().map(|r| role_rule(&node.db, &acx, r)).collect();
                    let st_after = controller_state(&node.db, &acx);
                    let asset_after = st_after.as_ref().and_then(|s| fungible_vault_balance(&node.db, &s.controlled_asset.0 .0)).unwrap_or(Decimal::ZERO);
                    // the proposer clock as the consensus driver last set it (read back from the store)
                    let stored_ms = field::<radix_engine::blueprints::consensus_manager::ConsensusManagerProposerMilliTimestampFieldPayload>(
                        &node.db,
                        CONSENSUS_MANAGER.as_node_id(),
                        MAIN_BASE_PARTITION,
                        radix_engine::blueprints::consensus_manager::ConsensusManagerField::ProposerMilliTimestamp.field_index(),
                    )
                    .map(|p| p.fully_update_and_into_latest_version().epoch_milli)
                    .unwrap_or(clock_ms);
                    let now_minute = stored_ms.div_euclid(60_000);
                    // caller's role under the rules in force (by the badge actually presented)
                    let caller_role: Option<usize> = if party < 3 && badge_set % 3 == model.rule_set { Some(party) } else { None };
                    let state_class = model.locked as u64 + 2 * model.primary_recovery.is_some() as u64 + 4 * model.primary_withdraw as u64 + 8 * model.recovery_recovery.is_some() as u64 + 16 * model.recovery_withdraw as u64;
                    stats.distinct.insert(prng::mix(prng::mix(method_ix as u64, caller_role.map(|x| x as u64).unwrap_or(9)), prng::mix(state_class, success as u64)));
                    digest = prng::mix(digest, prng::mix(method_ix as u64 * 2 + success as u64, state_class));
                    if std::env::var("VERIF_DEBUG").is_ok() {
                        eprintln!("DEBUG {:?} -> success={} model={:?}", step, success, model);
                    }
                    // ---- who may call what (the property's reading of the roles)
                    let allowed_roles: &[usize] = match method_ix {
                        0 | 1 | 3 | 10 | 12 => &[0],
                        2 | 4 | 11 | 13 | 14 | 15 | 9 => &[1],
                        5 | 7 => &[1, 2],
                        6 | 8 => &[0, 2],
                        17 => &[0, 1],
                        _ => &[0, 1, 2],
                    };
                    if !success && fault.is_none() && caller_role.map(|r| !allowed_roles.contains(&r)).unwrap_or(party == 3) {
                        stats.bump("refused.wrong_role");
                    }
                    if !success {
                        if rules_after != rules_before || asset_after != asset_before || st_after.as_ref().map(|s| format!("{:?}", s.state)) != st_before.as_ref().map(|s| format!("{:?}", s.state)) {
                            violation = Some(mk("c40.failed_call_changed_controller", format!("{:?} did not succeed but the controller changed: rules {:?} -> {:?}, asset {} -> {}", step, rules_before, rules_after, asset_before, asset_after)));
                            break;
                        }
                        // reach probes for the refusals the property is about
                        if fault.is_none() {
                            if method_ix == 0 && model.locked && caller_role == Some(0) {
                                stats.bump("refused.create_proof_while_locked");
                            }
                            if method_ix == 9 && caller_role == Some(1) {
                                if let Some((p, Some(deadline))) = model.recovery_recovery {
                                    if p == proposal && now_minute < deadline {
                                        stats.bump("refused.timed_confirm_before_deadline");
                                    }
                                }
                            }
                            if matches!(method_ix, 5 | 6) && caller_role.is_some() {
                                let open = if method_ix == 5 { model.primary_recovery } else { model.recovery_recovery.map(|x| x.0) };
                                if open.is_some() && open != Some(proposal) {
                                    stats.bump("refused.confirm_with_other_proposal");
                                }
                            }
                            if caller_role.is_none() && party < 3 {
                                stats.bump("refused.stale_badge");
                            }
                        }
                        continue;
                    }
                    stats.bump(&format!("ok.{}", mname));
                    if method_ix == 9 && caller_role != Some(1) {
                        // the property names the recovery role; the package declares the method Public
                        let sig = "c40.timed_recovery_confirmed_by_other_than_recovery_role";
                        if !stats.tolerate(sig) {
                            violation = Some(Violation {
                                monitor: sig.into(),
                                step: ix,
                                detail: format!(
                                    "timed_confirm_recovery succeeded for party {} (0 primary, 1 recovery, 2 confirmation, 3 outsider without any badge) presenting badge generation {} (in force {}): the recovery role's timed proposal was confirmed by someone who is not the recovery role",
                                    party,
                                    badge_set % 3,
                                    model.rule_set
                                ),
                                signature: sig.into(),
                            });
                            break;
                        }
                    } else if !caller_role.map(|r| allowed_roles.contains(&r)).unwrap_or(false) {
                        violation = Some(mk(
                            "c40.call_by_unauthorized_role",
                            format!("{} succeeded for party {} presenting badge generation {} (generation in force {}); allowed roles {:?} (0 primary, 1 recovery, 2 confirmation)", mname, party, badge_set % 3, model.rule_set, allowed_roles),
                        ));
                        break;
                    }
                    // ---- justification of rule changes / asset loss, and model update
                    let rules_changed = rules_after != rules_before;
                    let asset_left = asset_after < asset_before;
                    let mut justified_rules = false;
                    let mut justified_asset = false;
                    let mut expected = model.clone();
                    match method_ix {
                        0 => {
                            if model.locked {
                                violation = Some(mk("c40.proof_created_while_primary_locked", format!("create_proof succeeded although the primary role was locked by {:?} earlier in the history", "lock_primary_role")));
                                break;
                            }
                        }
                        1 => expected.primary_recovery = Some(proposal),
                        2 => expected.recovery_recovery = Some((proposal, model.delay.map(|d| now_minute + d as i64))),
                        3 => expected.primary_withdraw = true,
                        4 => expected.recovery_withdraw = true,
                        5 | 6 | 9 => {
                            let open = match method_ix {
                                5 => model.primary_recovery,
                                _ => model.recovery_recovery.map(|x| x.0),
                            };
                            let timer_ok = if method_ix == 9 {
                                match model.recovery_recovery {
                                    Some((_, Some(deadline))) => {
                                        if now_minute == deadline {
                                            stats.bump("timed.confirm_exactly_at_deadline_minute");
                                        }
                                        now_minute >= deadline
                                    }
                                    _ => false,
                                }
                            } else {
                                true
                            };
                            if open == Some(proposal) && timer_ok {
                                justified_rules = true;
                                // (the proposal's delay is recorded in the proposal but the controller keeps
                                // the delay it was created with: outside this property, noted as an observation)
                                expected = Model { rule_set: pset, delay: model.delay, asset_present: model.asset_present, ..Default::default() };
                            } else {
                                violation = Some(mk(
                                    "c40.recovery_confirmed_without_matching_proposal_or_timer",
                                    format!("{} with proposal {:?} succeeded at minute {}; open proposal of that proposer per history: {:?}; recovery-role attempt: {:?}", mname, proposal, now_minute, open, model.recovery_recovery),
                                ));
                                break;
                            }
                        }
                        7 | 8 => {
                            let open = if method_ix == 7 { model.primary_withdraw } else { model.recovery_withdraw };
                            if open {
                                justified_asset = true;
                                expected = Model { rule_set: model.rule_set, delay: model.delay, asset_present: false, ..Default::default() };
                            } else {
                                violation = Some(mk("c40.badge_withdrawn_without_attempt", format!("{} succeeded although no badge withdraw attempt of that proposer is open in the history", mname)));
                                break;
                            }
                        }
                        10 => expected.primary_recovery = None,
                        11 => expected.recovery_recovery = None,
                        12 => expected.primary_withdraw = false,
                        13 => expected.recovery_withdraw = false,
                        14 => expected.locked = true,
                        15 => expected.locked = false,
                        16 => {
                            if let Some((p, Some(_))) = model.recovery_recovery {
                                if p == proposal {
                                    expected.recovery_recovery = Some((p, None));
                                }
                            }
                        }
                        _ => {}
                    }
                    // a confirmed badge withdrawal retires the controller: every role becomes deny-all
                    if justified_asset {
                        let deny: Vec<Option<AccessRule>> = vec![Some(AccessRule::DenyAll); 3];
                        if rules_after != deny && rules_after != rules_before {
                            violation = Some(mk("c40.rules_changed_without_confirmation", format!("{} changed the role rules to {:?}", mname, rules_after)));
                            break;
                        }
                        if rules_after == deny {
                            expected.rule_set = 99; // nobody holds any role any more
                        }
                    } else if rules_changed && !justified_rules {
                        violation = Some(mk("c40.rules_changed_without_confirmation", format!("{} changed the role rules: {:?} -> {:?}", mname, rules_before, rules_after)));
                        break;
                    }
                    if asset_left && !justified_asset {
                        violation = Some(mk("c40.asset_left_without_confirmation", format!("{} took the controlled asset out ({} -> {})", mname, asset_before, asset_after)));
                        break;
                    }
                    if justified_rules {
                        let want: Vec<Option<AccessRule>> = vec![Some(rule_set.primary_role.clone()), Some(rule_set.recovery_role.clone()), Some(rule_set.confirmation_role.clone())];
                        if st_after.as_ref().map(|s| s.timed_recovery_delay_in_minutes) != Some(proposal_delay) {
                            stats.bump("note.proposed_delay_not_applied_on_confirmation");
                        }
                        if rules_after != want {
                            violation = Some(mk("c40.confirmed_rules_differ_from_proposal", format!("{} confirmed {:?} but the stored rules are {:?} and delay {:?}", mname, proposal, rules_after, st_after.as_ref().map(|s| s.timed_recovery_delay_in_minutes))));
                            break;
                        }
                        if pset != model.rule_set {
                            stats.bump("rules.rotated");
                        }
                    }
                    if justified_asset && (asset_after.is_positive() || !asset_before.is_positive() && model.asset_present) {
                        violation = Some(mk("c40.asset_left_without_confirmation", format!("{}: asset {} -> {}", mname, asset_before, asset_after)));
                        break;
                    }
                    model = expected;
                    // the stored state tuple equals the history model
                    if let Some(s) = &st_after {
                        let stored = format!("{:?}", s.state);
                        let m_locked = stored.contains("Locked") && !stored.starts_with("(Unlocked");
                        let pr = !matches!(s.state.1, PrimaryRoleRecoveryAttemptState::NoRecoveryAttempt);
                        let pw = !matches!(s.state.2, PrimaryRoleBadgeWithdrawAttemptState::NoBadgeWithdrawAttempt);
                        let rr = !matches!(s.state.3, RecoveryRoleRecoveryAttemptState::NoRecoveryAttempt);
                        let rw = !matches!(s.state.4, RecoveryRoleBadgeWithdrawAttemptState::NoBadgeWithdrawAttempt);
                        let locked = matches!(s.state.0, PrimaryRoleLockingState::Locked);
                        let _ = m_locked;
                        if locked != model.locked || pr != model.primary_recovery.is_some() || pw != model.primary_withdraw || rr != model.recovery_recovery.is_some() || rw != model.recovery_withdraw {
                            violation = Some(mk("c40.state_differs_from_history_model", format!("after {}: stored state {} but the history says {:?}", mname, stored, model)));
                            break;
                        }
                    }
                    let _ = asset_addr;
                }
            }
        }
        RunOutcome { steps: steps.taken, violation, stats, digest }
    }
}
