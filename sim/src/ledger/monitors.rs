//! Monitors of the ledger world. They decode state updates and stored substates themselves
//! (not the receipt's own summaries) wherever the property is about the store.

use super::node::*;
use radix_common::prelude::*;
use radix_engine::blueprints::consensus_manager::*;
use radix_engine::blueprints::resource::*;
use radix_engine::define_composite_checker;
use radix_engine::system::checkers::*;
use radix_engine::system::system_db_reader::SystemDatabaseReader;
use radix_engine::system::system_substates::FieldSubstate;
use radix_engine::system::type_info::TypeInfoSubstate;
use radix_engine::transaction::*;
use radix_engine_interface::prelude::*;
use radix_substate_store_impls::memory_db::InMemorySubstateDatabase;
use radix_substate_store_interface::db_key_mapper::*;
use radix_substate_store_interface::interface::*;
use std::collections::{BTreeMap, BTreeSet};

pub type Db = InMemorySubstateDatabase;
pub type Fail = (String, String); // (monitor, detail)

fn fail<T>(monitor: &str, detail: String) -> Result<T, Fail> {
    Err((monitor.to_string(), detail))
}

pub fn field<V: ScryptoDecode>(db: &Db, node: &NodeId, partition: PartitionNumber, field: u8) -> Option<V> {
    db.get_substate::<FieldSubstate<V>>(node, partition, SubstateKey::Field(field))
        .map(|s| s.into_payload())
}

pub fn fungible_vault_balance(db: &Db, vault: &NodeId) -> Option<Decimal> {
    field::<FungibleVaultBalanceFieldPayload>(db, vault, MAIN_BASE_PARTITION, FungibleVaultField::Balance.field_index())
        .map(|p| p.fully_update_and_into_latest_version().amount())
}

pub fn nf_vault_amount(db: &Db, vault: &NodeId) -> Option<Decimal> {
    field::<NonFungibleVaultBalanceFieldPayload>(db, vault, MAIN_BASE_PARTITION, NonFungibleVaultField::Balance.field_index())
        .map(|p| p.fully_update_and_into_latest_version().amount)
}

pub fn outer_resource(db: &Db, node: &NodeId) -> Option<ResourceAddress> {
    let ti: TypeInfoSubstate = db.get_substate(node, TYPE_INFO_FIELD_PARTITION, SubstateKey::Field(0))?;
    outer_of(&ti)
}

fn outer_of(ti: &TypeInfoSubstate) -> Option<ResourceAddress> {
    match ti {
        TypeInfoSubstate::Object(info) => match &info.blueprint_info.outer_obj_info {
            OuterObjectInfo::Some { outer_object } => ResourceAddress::try_from(outer_object.as_node_id().0.as_slice()).ok(),
            OuterObjectInfo::None => None,
        },
        _ => None,
    }
}

/// The post-commit value of one substate according to the state updates (None = untouched).
fn updated<'a>(updates: &'a StateUpdates, node: &NodeId, partition: PartitionNumber, key: &SubstateKey) -> Option<Option<&'a Vec<u8>>> {
    let NodeStateUpdates::Delta { by_partition } = updates.by_node.get(node)?;
    match by_partition.get(&partition)? {
        PartitionStateUpdates::Delta { by_substate } => by_substate.get(key).map(|u| match u {
            DatabaseUpdate::Set(v) => Some(v),
            DatabaseUpdate::Delete => None,
        }),
        PartitionStateUpdates::Batch(BatchPartitionStateUpdate::Reset { new_substate_values }) => Some(new_substate_values.get(key)),
    }
}

pub fn post_field<V: ScryptoDecode>(db: &Db, updates: &StateUpdates, node: &NodeId, partition: PartitionNumber, f: u8) -> Option<V> {
    match updated(updates, node, partition, &SubstateKey::Field(f)) {
        Some(Some(bytes)) => scrypto_decode::<FieldSubstate<V>>(bytes).ok().map(|s| s.into_payload()),
        Some(None) => None,
        None => field::<V>(db, node, partition, f),
    }
}

fn post_outer_resource(db: &Db, updates: &StateUpdates, node: &NodeId) -> Option<ResourceAddress> {
    match updated(updates, node, TYPE_INFO_FIELD_PARTITION, &SubstateKey::Field(0)) {
        Some(Some(bytes)) => scrypto_decode::<TypeInfoSubstate>(bytes).ok().and_then(|ti| outer_of(&ti)),
        _ => outer_resource(db, node),
    }
}

#[derive(Debug, Default, Clone)]
pub struct ResDelta {
    pub vault_delta: Decimal,
    pub supply_delta: Option<Decimal>,
    pub minted: Decimal,
    pub burned: Decimal,
    pub ids_added: BTreeMap<NonFungibleLocalId, i64>,
    pub minted_ids: BTreeSet<NonFungibleLocalId>,
    pub burned_ids: BTreeSet<NonFungibleLocalId>,
    pub touched_vaults: Vec<(NodeId, Decimal, Decimal)>,
}

fn total_supply(db: &Db, updates: Option<&StateUpdates>, res: &ResourceAddress) -> Option<Decimal> {
    let node = res.as_node_id();
    let fungible = matches!(node.entity_type(), Some(EntityType::GlobalFungibleResourceManager));
    // Fungible RM fields: 0 Divisibility, 1 TotalSupply; non-fungible RM: 0 IdType, 1 MutableFields, 2 TotalSupply
    let ix = if fungible {
        FungibleResourceManagerField::TotalSupply.field_index()
    } else {
        NonFungibleResourceManagerField::TotalSupply.field_index()
    };
    if fungible {
        match updates {
            Some(u) => post_field::<FungibleResourceManagerTotalSupplyFieldPayload>(db, u, node, MAIN_BASE_PARTITION, ix),
            None => field::<FungibleResourceManagerTotalSupplyFieldPayload>(db, node, MAIN_BASE_PARTITION, ix),
        }
        .map(|p| p.fully_update_and_into_latest_version())
    } else {
        match updates {
            Some(u) => post_field::<NonFungibleResourceManagerTotalSupplyFieldPayload>(db, u, node, MAIN_BASE_PARTITION, ix),
            None => field::<NonFungibleResourceManagerTotalSupplyFieldPayload>(db, node, MAIN_BASE_PARTITION, ix),
        }
        .map(|p| p.fully_update_and_into_latest_version())
    }
}

/// Per-resource deltas of one commit, from the pre-state store and the state updates only
/// (+ the mint/burn events for the three-way comparison).
pub fn resource_deltas(pre: &Db, c: &CommitResult) -> Result<BTreeMap<ResourceAddress, ResDelta>, Fail> {
    let mut out: BTreeMap<ResourceAddress, ResDelta> = BTreeMap::new();
    let updates = &c.state_updates;
    for (node, nu) in &updates.by_node {
        let NodeStateUpdates::Delta { by_partition } = nu;
        match node.entity_type() {
            Some(EntityType::InternalFungibleVault) => {
                if !by_partition.contains_key(&MAIN_BASE_PARTITION) {
                    continue;
                }
                let Some(res) = post_outer_resource(pre, updates, node) else {
                    return fail("c03.vault_without_resource", format!("vault {:?} has no resolvable resource", node));
                };
                let pre_amt = fungible_vault_balance(pre, node).unwrap_or(Decimal::ZERO);
                let post_amt = post_field::<FungibleVaultBalanceFieldPayload>(pre, updates, node, MAIN_BASE_PARTITION, FungibleVaultField::Balance.field_index())
                    .map(|p| p.fully_update_and_into_latest_version().amount())
                    .unwrap_or(Decimal::ZERO);
                let e = out.entry(res).or_default();
                e.vault_delta = e.vault_delta.checked_add(post_amt.checked_sub(pre_amt).unwrap()).unwrap();
                e.touched_vaults.push((*node, pre_amt, post_amt));
            }
            Some(EntityType::InternalNonFungibleVault) => {
                let Some(res) = post_outer_resource(pre, updates, node) else {
                    return fail("c03.vault_without_resource", format!("vault {:?} has no resolvable resource", node));
                };
                let pre_amt = nf_vault_amount(pre, node).unwrap_or(Decimal::ZERO);
                let post_amt = post_field::<NonFungibleVaultBalanceFieldPayload>(pre, updates, node, MAIN_BASE_PARTITION, NonFungibleVaultField::Balance.field_index())
                    .map(|p| p.fully_update_and_into_latest_version().amount)
                    .unwrap_or(Decimal::ZERO);
                let e = out.entry(res).or_default();
                e.vault_delta = e.vault_delta.checked_add(post_amt.checked_sub(pre_amt).unwrap()).unwrap();
                e.touched_vaults.push((*node, pre_amt, post_amt));
                // id index partition
                let ids_partition = MAIN_BASE_PARTITION.at_offset(PartitionOffset(1)).unwrap();
                if let Some(pu) = by_partition.get(&ids_partition) {
                    let mut count_delta: i64 = 0;
                    match pu {
                        PartitionStateUpdates::Delta { by_substate } => {
                            for (k, u) in by_substate {
                                let SubstateKey::Map(kb) = k else { continue };
                                let Ok(id) = scrypto_decode::<NonFungibleLocalId>(kb) else { continue };
                                let existed = pre.get_raw_substate(node, ids_partition, k.clone()).is_some();
                                match (existed, u) {
                                    (false, DatabaseUpdate::Set(_)) => {
                                        *e.ids_added.entry(id).or_default() += 1;
                                        count_delta += 1;
                                    }
                                    (true, DatabaseUpdate::Delete) => {
                                        *e.ids_added.entry(id).or_default() -= 1;
                                        count_delta -= 1;
                                    }
                                    _ => {}
                                }
                            }
                        }
                        PartitionStateUpdates::Batch(_) => {
                            return fail("c03.nf_vault_partition_reset", format!("non-fungible vault {:?} id index was reset", node));
                        }
                    }
                    if Decimal::from(count_delta) != post_amt.checked_sub(pre_amt).unwrap() {
                        return fail(
                            "c03.nf_vault_amount_vs_ids",
                            format!("non-fungible vault {:?}: amount changed by {} but the id index changed by {}", node, post_amt.checked_sub(pre_amt).unwrap(), count_delta),
                        );
                    }
                } else if post_amt != pre_amt {
                    return fail("c03.nf_vault_amount_vs_ids", format!("non-fungible vault {:?}: amount changed {} -> {} without id index change", node, pre_amt, post_amt));
                }
            }
            _ => {}
        }
    }
    // events
    for (EventTypeIdentifier(emitter, name), payload) in &c.application_events {
        let Emitter::Method(node, ModuleId::Main) = emitter else { continue };
        let Ok(res) = ResourceAddress::try_from(node.0.as_slice()) else { continue };
        match name.as_str() {
            "MintFungibleResourceEvent" => {
                if let Ok(ev) = scrypto_decode::<MintFungibleResourceEvent>(payload) {
                    let e = out.entry(res).or_default();
                    e.minted = e.minted.checked_add(ev.amount).unwrap();
                }
            }
            "BurnFungibleResourceEvent" => {
                if let Ok(ev) = scrypto_decode::<BurnFungibleResourceEvent>(payload) {
                    let e = out.entry(res).or_default();
                    e.burned = e.burned.checked_add(ev.amount).unwrap();
                }
            }
            "MintNonFungibleResourceEvent" => {
                if let Ok(ev) = scrypto_decode::<MintNonFungibleResourceEvent>(payload) {
                    let e = out.entry(res).or_default();
                    e.minted = e.minted.checked_add(Decimal::from(ev.ids.len())).unwrap();
                    e.minted_ids.extend(ev.ids);
                }
            }
            "BurnNonFungibleResourceEvent" => {
                if let Ok(ev) = scrypto_decode::<BurnNonFungibleResourceEvent>(payload) {
                    let e = out.entry(res).or_default();
                    e.burned = e.burned.checked_add(Decimal::from(ev.ids.len())).unwrap();
                    e.burned_ids.extend(ev.ids);
                }
            }
            _ => {}
        }
    }
    // supply of every resource manager touched by the updates
    for node in updates.by_node.keys() {
        if matches!(node.entity_type(), Some(EntityType::GlobalFungibleResourceManager) | Some(EntityType::GlobalNonFungibleResourceManager)) {
            if let Ok(res) = ResourceAddress::try_from(node.0.as_slice()) {
                out.entry(res).or_default();
            }
        }
    }
    for (res, d) in out.iter_mut() {
        let pre_s = total_supply(pre, None, res);
        let post_s = total_supply(pre, Some(updates), res);
        d.supply_delta = match (pre_s, post_s) {
            (Some(a), Some(b)) => Some(b.checked_sub(a).unwrap()),
            (None, Some(b)) => Some(b), // resource created in this transaction
            _ => None,
        };
    }
    Ok(out)
}

/// C03: conservation per committed transaction.
pub fn c03_conservation(pre: &Db, c: &CommitResult) -> Result<usize, Fail> {
    let deltas = resource_deltas(pre, c)?;
    for (res, d) in &deltas {
        let net_events = d.minted.checked_sub(d.burned).unwrap();
        if d.vault_delta != net_events {
            return fail(
                "c03.vaults_vs_mint_burn",
                format!("resource {:?}: net change of all vault balances is {} but minted - burned (events) is {} - {} = {}; touched vaults {:?}", res, d.vault_delta, d.minted, d.burned, net_events, d.touched_vaults),
            );
        }
        if let Some(sd) = d.supply_delta {
            if sd != d.vault_delta {
                return fail(
                    "c03.supply_vs_vaults",
                    format!("resource {:?}: recorded total supply changed by {} but the vault balances changed by {}", res, sd, d.vault_delta),
                );
            }
        }
        // non-fungible ids
        let mut net: BTreeMap<&NonFungibleLocalId, i64> = BTreeMap::new();
        for (id, n) in &d.ids_added {
            if *n != 0 {
                net.insert(id, *n);
            }
        }
        for (id, n) in &net {
            let minted = d.minted_ids.contains(*id);
            let burned = d.burned_ids.contains(*id);
            let expected = minted as i64 - burned as i64;
            if *n != expected {
                return fail(
                    "c03.nf_ids_vs_mint_burn",
                    format!("resource {:?}: id {} net vault membership change {} but minted={} burned={}", res, id, n, minted, burned),
                );
            }
        }
        for id in d.minted_ids.iter().filter(|i| !d.burned_ids.contains(*i)) {
            if d.ids_added.get(id).copied().unwrap_or(0) != 1 {
                return fail("c03.nf_ids_vs_mint_burn", format!("resource {:?}: id {} was minted but did not end up in exactly one vault", res, id));
            }
        }
    }
    Ok(deltas.len())
}

pub struct ScanResult {
    pub vaults: usize,
    pub resources: usize,
}

/// C04 (own scan): supply == sum of vaults, non-negative, NF amount == |ids|, an id in one vault only.
pub fn c04_scan(db: &Db) -> Result<ScanResult, Fail> {
    let mut sums: BTreeMap<ResourceAddress, Decimal> = BTreeMap::new();
    let mut resources: BTreeSet<ResourceAddress> = BTreeSet::new();
    let mut ids_seen: BTreeSet<(ResourceAddress, NonFungibleLocalId)> = BTreeSet::new();
    let mut vaults = 0;
    for node in all_node_ids(db) {
        match node.entity_type() {
            Some(EntityType::InternalFungibleVault) => {
                vaults += 1;
                let Some(res) = outer_resource(db, &node) else {
                    return fail("c04.vault_without_resource", format!("{:?}", node));
                };
                let Some(bal) = fungible_vault_balance(db, &node) else {
                    return fail("c04.vault_without_balance", format!("{:?}", node));
                };
                if bal.is_negative() {
                    return fail("c04.negative_balance", format!("vault {:?} of {:?} holds {}", node, res, bal));
                }
                let e = sums.entry(res).or_default();
                *e = e.checked_add(bal).unwrap();
            }
            Some(EntityType::InternalNonFungibleVault) => {
                vaults += 1;
                let Some(res) = outer_resource(db, &node) else {
                    return fail("c04.vault_without_resource", format!("{:?}", node));
                };
                let Some(amt) = nf_vault_amount(db, &node) else {
                    return fail("c04.vault_without_balance", format!("{:?}", node));
                };
                let ids_partition = MAIN_BASE_PARTITION.at_offset(PartitionOffset(1)).unwrap();
                let mut n = 0u64;
                for (k, _) in db.list_raw_values(&node, ids_partition, None::<SubstateKey>) {
                    if let SubstateKey::Map(kb) = SpreadPrefixKeyMapper::from_db_sort_key::<MapKey>(&k) {
                        if let Ok(id) = scrypto_decode::<NonFungibleLocalId>(&kb) {
                            if !ids_seen.insert((res, id.clone())) {
                                return fail("c04.nf_id_in_two_vaults", format!("resource {:?} id {} is held by two vaults", res, id));
                            }
                        }
                    }
                    n += 1;
                }
                if amt != Decimal::from(n) {
                    return fail("c04.nf_amount_vs_ids", format!("non-fungible vault {:?}: amount {} but {} ids", node, amt, n));
                }
                let e = sums.entry(res).or_default();
                *e = e.checked_add(amt).unwrap();
            }
            Some(EntityType::GlobalFungibleResourceManager) | Some(EntityType::GlobalNonFungibleResourceManager) => {
                if let Ok(r) = ResourceAddress::try_from(node.0.as_slice()) {
                    resources.insert(r);
                }
            }
            _ => {}
        }
    }
    for res in &resources {
        if let Some(supply) = total_supply(db, None, res) {
            let sum = sums.get(res).copied().unwrap_or(Decimal::ZERO);
            if supply != sum {
                return fail("c04.supply_vs_vault_sum", format!("resource {:?}: recorded total supply {} but the vaults hold {}", res, supply, sum));
            }
        }
    }
    Ok(ScanResult { vaults, resources: resources.len() })
}

define_composite_checker! {
    CompositeChecker,
    [
        ResourceDatabaseChecker,
        RoleAssignmentDatabaseChecker,
        PackageRoyaltyDatabaseChecker<F: Fn(&BlueprintId, &str) -> bool>,
        ComponentRoyaltyDatabaseChecker,
    ]
}

/// The repository's own checkers over the whole store (+ event replay): second opinion for
/// C04 (resources) and the scanners C05 names.
pub fn repo_checkers(db: &Db, events: &Vec<Events>, reconcile: bool, which: &str) -> Result<(), Fail> {
    let r = crate::simkit::catch_quiet(|| -> Result<(), Fail> {
        if which == "c05" {
            let mut kernel_checker = KernelDatabaseChecker::new();
            if let Err(e) = kernel_checker.check_db(db) {
                return fail("c05.kernel_checker", format!("{:?}", e));
            }
        }
        let reader = SystemDatabaseReader::new(db);
        let mut checker = SystemDatabaseChecker::new(CompositeChecker::new(
            Default::default(),
            Default::default(),
            PackageRoyaltyDatabaseChecker::new(|blueprint_id, func_name| {
                reader
                    .get_blueprint_definition(blueprint_id)
                    .map(|bp_def| bp_def.interface.functions.contains_key(func_name))
                    .unwrap_or(false)
            }),
            Default::default(),
        ));
        let results = match checker.check_db(db) {
            Ok(r) => r,
            Err(e) => return fail(&format!("{}.system_checker", which), format!("{:?}", e)),
        };
        if which == "c05" && !results.1 .1.is_empty() {
            return fail("c05.role_assignment_checker", format!("{:?}", results.1 .1));
        }
        if which == "c04" {
            let event_results = match SystemEventChecker::<ResourceEventChecker>::new().check_all_events(db, events) {
                Ok(r) => r,
                Err(e) => return fail("c04.event_checker", format!("{:?}", e)),
            };
            if reconcile {
                if let Err(e) = ResourceReconciler::reconcile(&results.1 .0, &event_results) {
                    return fail("c04.event_replay_vs_store", format!("{:?}", e));
                }
            }
        }
        Ok(())
    });
    match r {
        Ok(x) => x,
        Err(p) => fail(&format!("{}.checker_panicked", which), p),
    }
}

/// C05 (own pass): every stored internal node is owned exactly once; global nodes are never
/// owned; stored values reference only global nodes.
pub fn c05_ownership(db: &Db) -> Result<usize, Fail> {
    let mut owned: BTreeMap<NodeId, u32> = BTreeMap::new();
    let nodes = all_node_ids(db);
    let mut n_values = 0usize;
    for pk in db.list_partition_keys() {
        let node = SpreadPrefixKeyMapper::from_db_node_key(&pk.node_key);
        for (_, v) in db.list_raw_values_from_db_key(&pk, None) {
            let Ok(iv) = IndexedScryptoValue::from_vec(v) else { continue };
            n_values += 1;
            for o in iv.owned_nodes() {
                *owned.entry(*o).or_default() += 1;
            }
            for r in iv.references() {
                if !r.is_global() {
                    return fail("c05.non_global_reference_stored", format!("a stored value of {:?} references the internal node {:?}", node, r));
                }
            }
        }
    }
    for (n, cnt) in &owned {
        if n.is_global() {
            return fail("c05.global_node_owned", format!("global node {:?} appears as owned", n));
        }
        if *cnt != 1 {
            return fail("c05.owned_more_than_once", format!("internal node {:?} is owned {} times", n, cnt));
        }
        if !nodes.contains(n) {
            return fail("c05.owned_node_not_stored", format!("node {:?} is owned by a stored value but has no state", n));
        }
    }
    for n in &nodes {
        if n.is_internal() && !owned.contains_key(n) {
            return fail("c05.orphan_internal_node", format!("stored internal node {:?} has no owner", n));
        }
    }
    Ok(n_values)
}

// -------------------------------------------------------------------------------------------------
// C02

pub fn faucet_vault(db: &Db) -> Option<NodeId> {
    let raw = db.get_raw_substate(FAUCET.as_node_id(), MAIN_BASE_PARTITION, SubstateKey::Field(0))?;
    let iv = IndexedScryptoValue::from_vec(raw).ok()?;
    iv.owned_nodes()
        .iter()
        .find(|n| matches!(n.entity_type(), Some(EntityType::InternalFungibleVault)))
        .copied()
}

pub fn rewards_vault(db: &Db) -> Option<NodeId> {
    field::<ConsensusManagerValidatorRewardsFieldPayload>(db, CONSENSUS_MANAGER.as_node_id(), MAIN_BASE_PARTITION, ConsensusManagerField::ValidatorRewards.field_index())
        .map(|p| p.fully_update_and_into_latest_version().rewards_vault.0 .0)
}

/// C02 for a commit-failure receipt: only fee vault balances, the validator reward bookkeeping
/// and the replay-protection record may change; only fee-related events.
pub fn c02_failure_changes_only_fees(pre: &Db, c: &CommitResult, allowed_fee_vaults: &BTreeSet<NodeId>) -> Result<(), Fail> {
    let rewards = rewards_vault(pre);
    let mut fee_delta = Decimal::ZERO;
    let mut rewards_delta = Decimal::ZERO;
    for (node, nu) in &c.state_updates.by_node {
        let NodeStateUpdates::Delta { by_partition } = nu;
        for (part, pu) in by_partition {
            if node == TRANSACTION_TRACKER.as_node_id() {
                continue;
            }
            let keys: Vec<(SubstateKey, bool)> = match pu {
                PartitionStateUpdates::Delta { by_substate } => by_substate.iter().map(|(k, u)| (k.clone(), matches!(u, DatabaseUpdate::Delete))).collect(),
                PartitionStateUpdates::Batch(_) => {
                    return fail("c02.failure_resets_partition", format!("failed transaction resets partition {:?} of {:?}", part, node));
                }
            };
            for (key, is_delete) in keys {
                // no-op writes (same bytes) are not changes
                let pre_raw = pre.get_raw_substate(node, *part, key.clone());
                let post_raw = updated(&c.state_updates, node, *part, &key).and_then(|x| x.cloned());
                if pre_raw == post_raw {
                    continue;
                }
                if is_delete {
                    return fail("c02.failure_deletes_substate", format!("failed transaction deletes {:?}/{:?}/{:?}", node, part, key));
                }
                let is_balance = *part == MAIN_BASE_PARTITION && key == SubstateKey::Field(FungibleVaultField::Balance.field_index());
                if is_balance && matches!(node.entity_type(), Some(EntityType::InternalFungibleVault)) {
                    if pre_raw.is_none() {
                        return fail("c02.failure_creates_vault", format!("failed transaction creates vault {:?}", node));
                    }
                    if outer_resource(pre, node) != Some(XRD) {
                        return fail("c02.failure_changes_non_xrd_vault", format!("failed transaction changes the balance of non-XRD vault {:?}", node));
                    }
                    let a = fungible_vault_balance(pre, node).unwrap();
                    let b = post_field::<FungibleVaultBalanceFieldPayload>(pre, &c.state_updates, node, MAIN_BASE_PARTITION, 0)
                        .map(|p| p.fully_update_and_into_latest_version().amount())
                        .unwrap();
                    let d = b.checked_sub(a).unwrap();
                    if Some(*node) == rewards {
                        if d.is_negative() {
                            return fail("c02.rewards_vault_decreased", format!("validator rewards vault changed by {}", d));
                        }
                        rewards_delta = d;
                    } else if allowed_fee_vaults.contains(node) {
                        if d.is_positive() {
                            return fail("c02.fee_vault_increased", format!("fee-locking vault {:?} grew by {} in a failed transaction", node, d));
                        }
                        fee_delta = fee_delta.checked_add(d).unwrap();
                    } else {
                        return fail(
                            "c02.failure_changes_other_vault",
                            format!("failed transaction changes the balance of XRD vault {:?} (by {}) which did not lock a fee", node, d),
                        );
                    }
                    continue;
                }
                if node == CONSENSUS_MANAGER.as_node_id() && *part == MAIN_BASE_PARTITION && key == SubstateKey::Field(ConsensusManagerField::ValidatorRewards.field_index()) {
                    continue;
                }
                return fail(
                    "c02.failure_changes_other_state",
                    format!("failed transaction changes substate {:?} / partition {:?} / {:?}", node, part, key),
                );
            }
        }
    }
    // events: only fee-related ones
    let mut burn = Decimal::ZERO;
    for (EventTypeIdentifier(emitter, name), payload) in &c.application_events {
        let ok = match (emitter, name.as_str()) {
            (Emitter::Method(n, ModuleId::Main), "LockFeeEvent") | (Emitter::Method(n, ModuleId::Main), "PayFeeEvent") => allowed_fee_vaults.contains(n),
            (Emitter::Method(n, ModuleId::Main), "DepositEvent") => Some(*n) == rewards,
            (Emitter::Method(n, ModuleId::Main), "BurnFungibleResourceEvent") => {
                if n == XRD.as_node_id() {
                    if let Ok(ev) = scrypto_decode::<BurnFungibleResourceEvent>(payload) {
                        burn = burn.checked_add(ev.amount).unwrap();
                    }
                    true
                } else {
                    false
                }
            }
            _ => false,
        };
        if !ok {
            return fail("c02.failure_emits_other_event", format!("failed transaction emits event {} from {:?}", name, emitter));
        }
    }
    let total = fee_delta.checked_add(rewards_delta).unwrap().checked_add(burn).unwrap();
    if total != Decimal::ZERO {
        return fail(
            "c02.failure_fee_flow_unbalanced",
            format!("fee vaults changed by {}, rewards vault by {}, burn events {}: does not sum to zero", fee_delta, rewards_delta, burn),
        );
    }
    if !c.new_component_addresses().is_empty() || !c.new_resource_addresses().is_empty() || !c.new_package_addresses().is_empty() {
        return fail("c02.failure_creates_entities", "failed transaction reports new entities".into());
    }
    Ok(())
}
