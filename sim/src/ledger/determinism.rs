//! C01 — transaction execution is deterministic. Every transaction of a seeded history is
//! executed in the reference configuration (hash universe 0, warm cache, diagnostics off, one
//! thread) and committed; before the commit the same (state, transaction) is re-executed under
//! variant configurations and the results compared byte for byte. Periodically a batch of
//! transactions is executed on real threads parked at scheduling points (hook H2 + every
//! database read) and released one at a time by a seeded scheduler.

use super::node::*;
use super::steps::*;
use super::{opts_for, outcome_class, tip_of, LCfg};
use crate::simkit::*;
use radix_common::prelude::*;
use radix_engine::transaction::*;
use radix_engine::vm::wasm::verif_hooks as wasm_hooks;
use radix_engine::vm::*;
use radix_rust::rust::collections::verif_hasher::set_hash_universe;
use radix_substate_store_impls::memory_db::InMemorySubstateDatabase;
use radix_substate_store_impls::substate_database_overlay::SubstateDatabaseOverlay;
use radix_substate_store_interface::interface::*;
use radix_transactions::prelude::*;
use serde::{Deserialize, Serialize};
use serde_json::json;
use std::collections::BTreeSet;
use std::sync::{Arc, Condvar, Mutex};

#[derive(Clone, Debug, Serialize, Deserialize)]
pub enum DStep {
    Tx(LStep),
    /// Executes `steps` (not committed) on `threads` real threads against the current state and
    /// one shared, initially cold VM; `grants` is the schedule (thread id released at each
    /// scheduling point) - recorded in generate mode, followed in replay mode.
    Threads { steps: Vec<LStep>, threads: u8, grants: Vec<u8>, sticky_permille: u32, sched_seed: u64 },
}

#[derive(Clone, Debug, Serialize, Deserialize)]
pub struct DCfg {
    pub base: LCfg,
    /// number of variant executions per transaction
    pub variants_per_tx: u8,
    pub universes: u64,
    pub variant_seed: u64,
    pub threads_every: u32,
    pub thread_batch: u8,
}

pub struct C01;

/// The part of a receipt the property speaks about, as bytes. Diagnostic outputs
/// (fee_details, execution_trace, debug_information, resources_usage) are excluded.
pub fn receipt_bytes(r: &TransactionReceipt) -> Vec<u8> {
    let mut out = vec![];
    out.extend(scrypto_encode(&r.fee_summary).unwrap());
    out.extend(scrypto_encode(&r.costing_parameters).unwrap());
    out.extend(scrypto_encode(&r.transaction_costing_parameters).unwrap());
    match &r.result {
        TransactionResult::Commit(c) => {
            out.push(1);
            out.extend(scrypto_encode(&c.outcome).unwrap());
            out.extend(scrypto_encode(&c.state_updates).unwrap());
            out.extend(scrypto_encode(&c.state_update_summary).unwrap());
            out.extend(scrypto_encode(&c.application_events).unwrap());
            out.extend(scrypto_encode(&c.application_logs).unwrap());
            out.extend(scrypto_encode(&c.fee_source).unwrap());
            out.extend(scrypto_encode(&c.fee_destination).unwrap());
            out.extend(scrypto_encode(&c.system_structure).unwrap());
            out.extend(scrypto_encode(&c.performed_nullifications).unwrap());
        }
        TransactionResult::Reject(rj) => {
            out.push(2);
            out.extend(scrypto_encode(&rj.reason).unwrap());
        }
        TransactionResult::Abort(a) => {
            out.push(3);
            out.extend(scrypto_encode(&a.reason).unwrap());
        }
    }
    out
}

fn first_difference(a: &TransactionReceipt, b: &TransactionReceipt) -> String {
    if a.fee_summary != b.fee_summary {
        return format!("fee summary differs: {:?} vs {:?}", a.fee_summary, b.fee_summary);
    }
    match (&a.result, &b.result) {
        (TransactionResult::Commit(x), TransactionResult::Commit(y)) => {
            if x.outcome != y.outcome {
                return format!("outcome differs: {:?} vs {:?}", x.outcome, y.outcome).chars().take(600).collect();
            }
            if x.state_updates != y.state_updates {
                let ka: Vec<_> = x.state_updates.by_node.keys().collect();
                let kb: Vec<_> = y.state_updates.by_node.keys().collect();
                if ka != kb {
                    return format!("state updates differ: node order/sets {:?} vs {:?}", ka, kb).chars().take(600).collect();
                }
                return "state updates differ (same nodes, different partition/substate content or order)".into();
            }
            if x.application_events != y.application_events {
                return format!("events differ: {} vs {} events", x.application_events.len(), y.application_events.len());
            }
            if x.application_logs != y.application_logs {
                return "logs differ".into();
            }
            if x.fee_source != y.fee_source || x.fee_destination != y.fee_destination {
                return "fee source/destination differ".into();
            }
            if x.state_update_summary != y.state_update_summary {
                return "state update summary differs".into();
            }
            "system structure or nullifications differ".into()
        }
        (x, y) => format!("result kinds differ: {} vs {}", kind(x), kind(y)),
    }
}

fn kind(r: &TransactionResult) -> &'static str {
    match r {
        TransactionResult::Commit(_) => "commit",
        TransactionResult::Reject(_) => "reject",
        TransactionResult::Abort(_) => "abort",
    }
}

/// A SubstateDatabase wrapper whose every read is a scheduling point.
struct YieldingDb<'a, D>(&'a D);

impl<'a, D: SubstateDatabase> SubstateDatabase for YieldingDb<'a, D> {
    fn get_raw_substate_by_db_key(&self, partition_key: &DbPartitionKey, sort_key: &DbSortKey) -> Option<DbSubstateValue> {
        wasm_hooks::yield_point("db_get");
        self.0.get_raw_substate_by_db_key(partition_key, sort_key)
    }
    fn list_raw_values_from_db_key(&self, partition_key: &DbPartitionKey, from_sort_key: Option<&DbSortKey>) -> Box<dyn Iterator<Item = PartitionEntry> + '_> {
        wasm_hooks::yield_point("db_list");
        self.0.list_raw_values_from_db_key(partition_key, from_sort_key)
    }
}

struct SchedState {
    waiting: BTreeSet<usize>,
    granted: Option<usize>,
    done: BTreeSet<usize>,
}

struct Sched {
    m: Mutex<SchedState>,
    cv: Condvar,
}

impl Sched {
    fn park(&self, tid: usize) {
        let mut s = self.m.lock().unwrap();
        s.waiting.insert(tid);
        self.cv.notify_all();
        while s.granted != Some(tid) {
            s = self.cv.wait(s).unwrap();
        }
        s.granted = None;
        s.waiting.remove(&tid);
        self.cv.notify_all();
    }
    fn finish(&self, tid: usize) {
        let mut s = self.m.lock().unwrap();
        s.done.insert(tid);
        self.cv.notify_all();
    }
}

struct ThreadOutcome {
    receipts: Vec<(usize, Result<TransactionReceipt, String>)>,
    cache_events: Vec<&'static str>,
}

/// Runs `exes` split round-robin over `n_threads` real threads, serialised by the scheduler.
/// Returns per-executable receipts, the grant sequence actually used, and cache event probes.
fn run_threads(
    db: &InMemorySubstateDatabase,
    exes: &[ExecutableTransaction],
    cfgs: &[ExecutionConfig],
    n_threads: usize,
    given_grants: Option<&[u8]>,
    sched_seed: u64,
    sticky_permille: u32,
) -> (Vec<Option<Result<TransactionReceipt, String>>>, Vec<u8>, Vec<Vec<&'static str>>) {
    let vm: DefaultVmModules = VmModules::default(); // shared, cold
    let sched = Arc::new(Sched {
        m: Mutex::new(SchedState {
            waiting: BTreeSet::new(),
            granted: None,
            done: BTreeSet::new(),
        }),
        cv: Condvar::new(),
    });
    let mut grants_used: Vec<u8> = vec![];
    let mut results: Vec<Option<Result<TransactionReceipt, String>>> = (0..exes.len()).map(|_| None).collect();
    let mut cache_events: Vec<Vec<&'static str>> = vec![];
    std::thread::scope(|sc| {
        let mut handles = vec![];
        for tid in 0..n_threads {
            let sched = sched.clone();
            let vm = &vm;
            let my: Vec<usize> = (0..exes.len()).filter(|i| i % n_threads == tid).collect();
            handles.push(sc.spawn(move || {
                set_hash_universe(100 + tid as u64);
                let events: std::rc::Rc<std::cell::RefCell<Vec<&'static str>>> = Default::default();
                {
                    let sched = sched.clone();
                    let events = events.clone();
                    wasm_hooks::set_yield_callback(Some(Box::new(move |name| {
                        if name.starts_with("cache") {
                            events.borrow_mut().push(name);
                        }
                        sched.park(tid);
                    })));
                }
                sched.park(tid); // start under scheduler control
                let ydb = YieldingDb(db);
                let mut out = ThreadOutcome { receipts: vec![], cache_events: vec![] };
                for i in my {
                    let r = Node::execute_on(&ydb, vm, &exes[i], &cfgs[i], None);
                    out.receipts.push((i, r));
                }
                wasm_hooks::set_yield_callback(None);
                out.cache_events = events.borrow().clone();
                sched.finish(tid);
                out
            }));
        }
        // scheduler
        let mut rng = Rng::from_u64(sched_seed);
        let mut pos = 0usize;
        let mut last: Option<usize> = None;
        loop {
            let mut s = sched.m.lock().unwrap();
            while !(s.granted.is_none() && s.waiting.len() + s.done.len() == n_threads) {
                s = sched.cv.wait(s).unwrap();
            }
            if s.done.len() == n_threads {
                break;
            }
            let waiting: Vec<usize> = s.waiting.iter().copied().collect();
            let pick = match given_grants {
                Some(g) => {
                    let want = g.get(pos).map(|x| *x as usize);
                    match want {
                        Some(w) if waiting.contains(&w) => w,
                        _ => waiting[0],
                    }
                }
                None => {
                    if let (Some(l), true) = (last, rng.below(1000) < sticky_permille as u64) {
                        if waiting.contains(&l) {
                            l
                        } else {
                            *rng.pick(&waiting)
                        }
                    } else {
                        *rng.pick(&waiting)
                    }
                }
            };
            pos += 1;
            last = Some(pick);
            if grants_used.len() < 200_000 {
                grants_used.push(pick as u8);
            }
            s.granted = Some(pick);
            sched.cv.notify_all();
        }
        for h in handles {
            let out = h.join().expect("worker thread");
            for (i, r) in out.receipts {
                results[i] = Some(r);
            }
            cache_events.push(out.cache_events);
        }
    });
    (results, grants_used, cache_events)
}

fn build_exe(step: &LStep, view: &View, node: &mut Node) -> Option<(ExecutableTransaction, bool)> {
    match build_any(step, view, node) {
        Built::Skip | Built::Restart => None,
        Built::System(m) => {
            let nonce = node.next_nonce();
            Some((system_executable(m, nonce, &node.validator), true))
        }
        Built::User(m) => {
            let nonce = node.next_nonce();
            let actor = &view.parties[step.actor as usize];
            let mut spec = TxSpec::new(m, nonce, btreeset![actor.proof.clone()]);
            spec.tip = tip_of(step.tip_bp);
            spec.build(&node.validator).ok().map(|e| (e, false))
        }
    }
}

impl World for C01 {
    type Step = DStep;
    type Cfg = DCfg;

    fn property(&self) -> &'static str {
        "C01"
    }
    fn world(&self) -> &'static str {
        "ledger"
    }
    fn rule(&self) -> String {
        "Per run: a seeded ledger history (same step vocabulary as C02-C06, with injected costing errors, cost limits, aborts, restarts). Every transaction is executed in the reference configuration (hash universe 0 via hook H1, warm code cache, diagnostics off, single thread) and committed; before the commit the same (state, transaction) is re-executed under variants drawn per transaction: other hash universes (every HashMap/IndexMap/NonIterMap of the engine gets other keys), diagnostic flag combinations (cost breakdown, execution trace depth 1 / MAX, debug information), a brand-new cold VM, and a different store implementation (overlay over the same content); byte equality of outcome, state updates, events, logs, fee summary/source/destination, summary and nullifications is required. Every threads_every steps a batch of fresh transactions is executed (not committed) on 2-4 real threads sharing one cold VM; every thread parks at each H2 code-cache point and at every database read and a seeded scheduler (uniform with stickiness) releases exactly one; per-transaction results must equal the sequential ones. evaluations = engine executions (reference + variants + threaded); distinct = distinct (receipt digest, variant kind) pairs + distinct grant-sequence digests.".into()
    }
    fn assumptions(&self) -> Vec<String> {
        vec![
            "Threads are serialised: exactly one runs between two scheduling points (H2 points and database reads); races inside wasmi/moka between truly parallel instructions are not reachable without hooks in those dependencies and are not claimed.".into(),
            "moka's housekeeping is outside the scheduler; the cache is far below capacity in threaded runs.".into(),
            "Kernel trace (prints to stdout) is only exercised by the fresh-process re-run of the first runs of the batch (child process with stdout discarded), which also covers 'in any process'.".into(),
            "Hook H1 replaces RandomState with a seeded builder for the harness too; the harness never lets map order reach a decision (BTree containers).".into(),
        ]
    }
    fn real_vs_stub(&self) -> serde_json::Value {
        json!({"real": ["radix-engine (kernel, system, native blueprints, costing, limits)", "Scrypto VM + wasmi + moka code cache", "transaction preparation", "InMemorySubstateDatabase, SubstateDatabaseOverlay", "OS threads (parked and released one at a time)"],
               "stub_or_ours": ["clients, node loop, consensus driver", "thread scheduler", "YieldingDb wrapper (SubstateDatabase trait seam)", "seeded hasher (hook H1)"]})
    }
    fn probes(&self) -> Vec<&'static str> {
        vec![
            "variant.universe",
            "variant.flags",
            "variant.cold_vm",
            "variant.overlay_store",
            "threads.batches",
            "threads.transactions",
            "probe.two_threads_missed_same_code",
            "probe.cache_hit_on_module_compiled_by_other_thread",
            "probe.map_order_differs_between_universes",
            "outcome.commit_success",
            "outcome.commit_failure",
            "outcome.reject",
        ]
    }
    fn budget(&self, tier: Tier) -> (u64, u64) {
        match tier {
            Tier::Quick => (400, 50),
            Tier::Thorough => (20_000, 1200),
        }
    }
    fn gen_cfg(&self, rng: &mut Rng, tier: Tier, run: u64) -> DCfg {
        let lc = super::LedgerCheck { id: "C01" };
        let mut base = lc.gen_cfg(rng, tier, run);
        base.n_steps = rng.range(15, if tier == Tier::Quick { 50 } else { 120 }) as usize;
        DCfg {
            base,
            variants_per_tx: if tier == Tier::Quick { *rng.pick(&[1u8, 2, 3]) } else { *rng.pick(&[3u8, 6, 12]) },
            universes: 8,
            variant_seed: rng.next_u64(),
            threads_every: *rng.pick(&[0u32, 10, 20]),
            thread_batch: rng.range(2, 6) as u8,
        }
    }

    fn run(&self, cfg: &DCfg, mode: Mode<DStep>) -> RunOutcome<DStep> {
        let mut steps = Steps::new(mode);
        let kernel_trace = std::env::var("VERIF_KERNEL_TRACE").is_ok();
        set_hash_universe(0);
        let mut node = Node::from_base();
        let mut view = View::new();
        let mut stats = Stats::default();
        let mut digest = 0u64;
        let mut violation = None;
        let mut n = 0usize;
        // canary: does map iteration order really differ between universes?
        {
            let order = |u: u64| -> Vec<u32> {
                set_hash_universe(u);
                let mut m = radix_rust::rust::collections::hash_map::new();
                for i in 0..32u32 {
                    m.insert(i, ());
                }
                m.keys().copied().collect()
            };
            if order(1) != order(2) {
                stats.bump("probe.map_order_differs_between_universes");
            }
            set_hash_universe(0);
        }
        loop {
            let step = steps.next(|rng| {
                if n >= cfg.base.n_steps + N_PARTIES + 1 {
                    return None;
                }
                if n < N_PARTIES + 1 {
                    return Some(DStep::Tx(LStep { actor: n as u8, body: Body::Fund, fee: Fee::Faucet, fault: Fault::None, tip_bp: 0 }));
                }
                if cfg.threads_every > 0 && n as u32 % cfg.threads_every == 0 {
                    let batch = (0..cfg.thread_batch)
                        .map(|_| {
                            let mut s = gen_step(rng, &view, &node, &cfg.base.weights, 0);
                            // favour transactions that go through the WASM VM (faucet calls)
                            if rng.chance(1, 2) {
                                s.fee = Fee::Faucet;
                            }
                            if matches!(s.body, Body::Restart | Body::Round { .. }) {
                                s.body = Body::Fund;
                            }
                            s
                        })
                        .collect();
                    return Some(DStep::Threads {
                        steps: batch,
                        threads: rng.range(2, 4) as u8,
                        grants: vec![],
                        sticky_permille: *rng.pick(&[0u32, 500, 900, 990]),
                        sched_seed: rng.next_u64(),
                    });
                }
                Some(DStep::Tx(gen_step(rng, &view, &node, &cfg.base.weights, cfg.base.fault_permille)))
            });
            n += 1;
            let Some(step) = step else { break };
            let ix = steps.index();
            let fail = |monitor: &str, detail: String| Violation {
                monitor: monitor.into(),
                step: ix,
                detail,
                signature: monitor.into(),
            };
            match step {
                DStep::Tx(ls) => {
                    if ls.body == Body::Restart {
                        node.restart();
                        stats.bump("fault.restart_fired");
                        continue;
                    }
                    let Some((exe, system)) = build_exe(&ls, &view, &mut node) else {
                        stats.bump("steps.skipped_unbound_name");
                        continue;
                    };
                    let mut opts = opts_for(if system { &Fault::None } else { &ls.fault }, system);
                    opts.kernel_trace = kernel_trace;
                    set_hash_universe(0);
                    stats.evaluations += 1;
                    let reference = match node.execute(&exe, &opts) {
                        Ok(r) => r,
                        Err(p) => {
                            stats.bump(&format!("note.other_property.c11.engine_panicked"));
                            let _ = p;
                            break;
                        }
                    };
                    let ref_bytes = receipt_bytes(&reference);
                    let rd = prng::fnv64(&ref_bytes);
                    stats.bump(match outcome_class(&reference) {
                        1 => "outcome.commit_success",
                        2 => "outcome.commit_failure",
                        3 => "outcome.reject",
                        _ => "outcome.abort",
                    });
                    // variants
                    let mut vr = Rng::from_u64(prng::mix(cfg.variant_seed, ix as u64));
                    for _ in 0..cfg.variants_per_tx {
                        let kind = vr.below(4);
                        let mut vopts = opts.clone();
                        vopts.kernel_trace = false;
                        let (label, got): (String, Result<TransactionReceipt, String>) = match kind {
                            0 => {
                                let u = vr.range(1, cfg.universes.max(1));
                                set_hash_universe(u);
                                stats.bump("variant.universe");
                                (format!("hash universe {}", u), node.execute(&exe, &vopts))
                            }
                            1 => {
                                vopts.cost_breakdown = vr.chance(1, 2);
                                vopts.execution_trace = *vr.pick(&[None, Some(1usize), Some(MAX_EXECUTION_TRACE_DEPTH)]);
                                vopts.debug_information = vr.chance(1, 2);
                                set_hash_universe(vr.below(2));
                                stats.bump("variant.flags");
                                (
                                    format!("diagnostic flags cost_breakdown={} execution_trace={:?} debug_information={}", vopts.cost_breakdown, vopts.execution_trace, vopts.debug_information),
                                    node.execute(&exe, &vopts),
                                )
                            }
                            2 => {
                                set_hash_universe(0);
                                let cold: DefaultVmModules = VmModules::default();
                                stats.bump("variant.cold_vm");
                                ("cold VM (new code cache)".into(), Node::execute_on(&node.db, &cold, &exe, &Node::config(&vopts), vopts.inject_at))
                            }
                            _ => {
                                set_hash_universe(vr.below(3));
                                let overlay = SubstateDatabaseOverlay::new_unmergeable(&node.db);
                                stats.bump("variant.overlay_store");
                                ("overlay store over the same content".into(), Node::execute_on(&overlay, &node.vm, &exe, &Node::config(&vopts), vopts.inject_at))
                            }
                        };
                        set_hash_universe(0);
                        stats.evaluations += 1;
                        match got {
                            Err(p) => {
                                violation = Some(fail("c01.variant_panicked", format!("{:?} under {} panicked: {}", ls, label, p)));
                                break;
                            }
                            Ok(r) => {
                                let b = receipt_bytes(&r);
                                stats.distinct.insert(prng::mix(rd, kind + 1));
                                if b != ref_bytes {
                                    violation = Some(fail(
                                        "c01.variant_differs",
                                        format!("step {:?}: execution under [{}] differs from the reference execution of the same transaction on the same state: {}", ls, label, first_difference(&reference, &r)),
                                    ));
                                    break;
                                }
                            }
                        }
                    }
                    if violation.is_some() {
                        break;
                    }
                    digest = prng::mix(digest, rd);
                    node.commit(&reference);
                    absorb(&ls, &mut view, &reference, &node);
                }
                DStep::Threads { steps: batch, threads, grants, sticky_permille, sched_seed } => {
                    let mut exes = vec![];
                    let mut cfgs = vec![];
                    for s in &batch {
                        if let Some((e, system)) = build_exe(s, &view, &mut node) {
                            let o = opts_for(&Fault::None, system);
                            exes.push(e);
                            cfgs.push(Node::config(&o));
                        }
                    }
                    if exes.is_empty() {
                        continue;
                    }
                    // sequential references on the same state, cold VM
                    set_hash_universe(0);
                    let ref_vm: DefaultVmModules = VmModules::default();
                    let mut refs = vec![];
                    let mut ok = true;
                    for (e, c) in exes.iter().zip(cfgs.iter()) {
                        stats.evaluations += 1;
                        match Node::execute_on(&node.db, &ref_vm, e, c, None) {
                            Ok(r) => refs.push(r),
                            Err(_) => {
                                ok = false;
                                break;
                            }
                        }
                    }
                    if !ok {
                        stats.bump("note.other_property.c11.engine_panicked");
                        break;
                    }
                    let n_threads = (threads as usize).clamp(2, 4).min(exes.len().max(2));
                    let given = if grants.is_empty() { None } else { Some(grants.as_slice()) };
                    let (results, used, cache_events) = run_threads(&node.db, &exes, &cfgs, n_threads, given, sched_seed, sticky_permille);
                    set_hash_universe(0);
                    stats.bump("threads.batches");
                    stats.add("threads.transactions", exes.len() as u64);
                    stats.add("threads.scheduling_points", used.len() as u64);
                    stats.evaluations += exes.len() as u64;
                    stats.distinct.insert(prng::fnv64(&used));
                    // probes on the shared cache
                    let misses = cache_events.iter().filter(|e| e.contains(&"cache_miss_before_compile")).count();
                    if misses >= 2 {
                        stats.bump("probe.two_threads_missed_same_code");
                    }
                    if cache_events.iter().any(|e| e.contains(&"cache_hit") && !e.contains(&"cache_miss_before_compile")) && misses >= 1 {
                        stats.bump("probe.cache_hit_on_module_compiled_by_other_thread");
                    }
                    // record the schedule for replay
                    if let Some(DStep::Threads { grants: g, .. }) = steps.taken.last_mut() {
                        if g.is_empty() {
                            *g = used.clone();
                        }
                    }
                    for (i, r) in results.into_iter().enumerate() {
                        match r {
                            None => {}
                            Some(Err(p)) => {
                                violation = Some(fail("c01.threaded_execution_panicked", format!("transaction {} of the batch panicked on its thread: {}", i, p)));
                                break;
                            }
                            Some(Ok(r)) => {
                                if receipt_bytes(&r) != receipt_bytes(&refs[i]) {
                                    violation = Some(fail(
                                        "c01.threaded_execution_differs",
                                        format!("transaction {} ({:?}) executed on a thread interleaved with {} others differs from its sequential execution on the same state: {}", i, batch.get(i), n_threads - 1, first_difference(&refs[i], &r)),
                                    ));
                                    break;
                                }
                            }
                        }
                    }
                    if violation.is_some() {
                        break;
                    }
                    digest = prng::mix(digest, prng::fnv64(&used));
                }
            }
        }
        set_hash_universe(0);
        RunOutcome {
            steps: steps.taken,
            violation,
            stats,
            digest,
        }
    }

    fn simplify_step(&self, step: &DStep) -> Vec<DStep> {
        match step {
            DStep::Tx(l) => {
                let mut v = vec![];
                if l.fault != Fault::None {
                    let mut s = l.clone();
                    s.fault = Fault::None;
                    v.push(DStep::Tx(s));
                }
                v
            }
            DStep::Threads { steps, threads, grants, sticky_permille, sched_seed } => {
                let mut v = vec![];
                for i in 0..steps.len() {
                    if steps.len() > 1 {
                        let mut s = steps.clone();
                        s.remove(i);
                        v.push(DStep::Threads { steps: s, threads: *threads, grants: grants.clone(), sticky_permille: *sticky_permille, sched_seed: *sched_seed });
                    }
                }
                if *threads > 2 {
                    v.push(DStep::Threads { steps: steps.clone(), threads: 2, grants: grants.clone(), sticky_permille: *sticky_permille, sched_seed: *sched_seed });
                }
                v
            }
        }
    }

    fn simplify_cfg(&self, cfg: &DCfg) -> Vec<DCfg> {
        let mut v = vec![];
        if cfg.variants_per_tx > 1 {
            let mut c = cfg.clone();
            c.variants_per_tx = 1;
            v.push(c);
        }
        v
    }
}
