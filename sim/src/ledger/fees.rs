//! C06 — fees are fully paid and exactly distributed. Oracle in exact integer arithmetic on attos
//! (i128/BigInt), from the receipt's fee figures, the state updates and the pre-state store.

use super::monitors::*;
use num_bigint::BigInt;
use radix_common::prelude::*;
use radix_engine::blueprints::consensus_manager::*;
use radix_engine::blueprints::resource::*;
use radix_engine::transaction::*;
use radix_engine_interface::prelude::*;
use std::collections::BTreeSet;

fn attos(d: Decimal) -> BigInt {
    // via the decimal text form (independent of I192 arithmetic): "123.456" -> attos
    let s = d.to_string();
    let neg = s.starts_with('-');
    let s = s.trim_start_matches('-');
    let (w, f) = match s.split_once('.') {
        Some((w, f)) => (w.to_string(), f.to_string()),
        None => (s.to_string(), String::new()),
    };
    let mut frac = f;
    while frac.len() < 18 {
        frac.push('0');
    }
    let v: BigInt = format!("{}{}", w, frac).parse().unwrap();
    if neg {
        -v
    } else {
        v
    }
}

fn post_balance(pre: &Db, updates: &StateUpdates, vault: &NodeId) -> Option<Decimal> {
    let NodeStateUpdates::Delta { by_partition } = match updates.by_node.get(vault) {
        Some(x) => x,
        None => return fungible_vault_balance(pre, vault),
    };
    if let Some(PartitionStateUpdates::Delta { by_substate }) = by_partition.get(&MAIN_BASE_PARTITION) {
        if let Some(DatabaseUpdate::Set(bytes)) = by_substate.get(&SubstateKey::Field(0)) {
            return scrypto_decode::<radix_engine::system::system_substates::FieldSubstate<FungibleVaultBalanceFieldPayload>>(bytes)
                .ok()
                .map(|s| s.into_payload().fully_update_and_into_latest_version().amount());
        }
    }
    fungible_vault_balance(pre, vault)
}

pub struct FeeCtx {
    /// the dedicated payer's XRD vault (nothing but fee locks touches it in this transaction)
    pub dedicated_payer_vault: Option<NodeId>,
    /// a vault that only held a contingent lock (must be untouched on failure)
    pub contingent_only_vault: Option<NodeId>,
    pub free_credit: Decimal,
}

/// All C06 equalities for one committed receipt. Returns the total cost in attos.
pub fn c06_check(pre: &Db, receipt: &TransactionReceipt, fctx: &FeeCtx) -> Result<BigInt, Fail> {
    let TransactionResult::Commit(c) = &receipt.result else {
        return Ok(BigInt::from(0));
    };
    let is_success = matches!(c.outcome, TransactionOutcome::Success(_));
    let f = &receipt.fee_summary;
    let fail = |m: &str, d: String| -> Result<BigInt, Fail> { Err((format!("c06.{}", m), d)) };
    let exec = attos(f.total_execution_cost_in_xrd);
    let fin = attos(f.total_finalization_cost_in_xrd);
    let tip = attos(f.total_tipping_cost_in_xrd);
    let storage = attos(f.total_storage_cost_in_xrd);
    let royalty = attos(f.total_royalty_cost_in_xrd);
    let total = &exec + &fin + &tip + &storage + &royalty;
    for (name, v) in [("execution", &exec), ("finalization", &fin), ("tip", &tip), ("storage", &storage), ("royalty", &royalty)] {
        if *v < BigInt::from(0) {
            return fail("negative_cost", format!("{} cost is negative: {}", name, v));
        }
    }
    // cost units within limits
    let cp = &receipt.costing_parameters;
    if f.total_execution_cost_units_consumed > cp.execution_cost_unit_limit {
        return fail("execution_units_over_limit", format!("{} > {}", f.total_execution_cost_units_consumed, cp.execution_cost_unit_limit));
    }
    if f.total_finalization_cost_units_consumed > cp.finalization_cost_unit_limit {
        return fail("finalization_units_over_limit", format!("{} > {}", f.total_finalization_cost_units_consumed, cp.finalization_cost_unit_limit));
    }
    // execution / finalization cost = units x price exactly
    let exp_exec = attos(cp.execution_cost_unit_price) * BigInt::from(f.total_execution_cost_units_consumed);
    let exp_fin = attos(cp.finalization_cost_unit_price) * BigInt::from(f.total_finalization_cost_units_consumed);
    if exec != exp_exec || fin != exp_fin {
        return fail("cost_not_units_times_price", format!("execution {} vs {} ; finalization {} vs {}", exec, exp_exec, fin, exp_fin));
    }
    // tip = (execution + finalization) x proportion, each product truncated to 18 decimals
    let tip_prop = attos(receipt.transaction_costing_parameters.tip_proportion);
    let one = BigInt::from(10u64).pow(18);
    // (the property does not fix the rounding of the tip; the engine charges cost units at a
    // tip-inclusive unit price rounded to 18 decimals, so up to one atto per cost unit is allowed)
    let slack = BigInt::from(f.total_execution_cost_units_consumed as u64 + f.total_finalization_cost_units_consumed as u64 + 2);
    let exp_tip_lo = (&exec * &tip_prop) / &one + (&fin * &tip_prop) / &one - &slack;
    let exp_tip_hi = ((&exec + &fin) * &tip_prop + &one - 1) / &one + &slack;
    if tip < exp_tip_lo || tip > exp_tip_hi {
        return fail("tip_amount", format!("tip {} not in [{}, {}] for proportion {}", tip, exp_tip_lo, exp_tip_hi, tip_prop));
    }
    // paid: what left the paying vaults
    let mut paid_reported = BigInt::from(0);
    for (v, amt) in &c.fee_source.paying_vaults {
        if amt.is_negative() {
            return fail("negative_payment", format!("vault {:?} pays {}", v, amt));
        }
        paid_reported += attos(*amt);
        if outer_resource(pre, v) != Some(XRD) {
            return fail("fee_from_non_xrd_vault", format!("{:?}", v));
        }
    }
    let free = attos(fctx.free_credit);
    if paid_reported.clone() + &free < total || paid_reported > total {
        return fail(
            "paid_vs_total_cost",
            format!("paying vaults report {} attos (+ free credit {}), total cost (execution+finalization+tip+storage+royalties) is {}", paid_reported, free, total),
        );
    }
    if free == BigInt::from(0) && paid_reported != total {
        return fail("paid_vs_total_cost", format!("paid {} != total cost {}", paid_reported, total));
    }
    // the dedicated payer's vault lost exactly what it is reported to have paid
    if let Some(v) = &fctx.dedicated_payer_vault {
        let a = fungible_vault_balance(pre, v).unwrap_or(Decimal::ZERO);
        let b = post_balance(pre, &c.state_updates, v).unwrap_or(Decimal::ZERO);
        let lost = attos(a) - attos(b);
        let reported = c.fee_source.paying_vaults.get(v).map(|d| attos(*d)).unwrap_or(BigInt::from(0));
        if lost != reported {
            return fail(
                "vault_delta_vs_reported_payment",
                format!("dedicated fee payer vault {:?} lost {} attos but is reported to have paid {} (unused locks must be refunded in full)", v, lost, reported),
            );
        }
    }
    if let (Some(v), false) = (&fctx.contingent_only_vault, is_success) {
        let a = fungible_vault_balance(pre, v).unwrap_or(Decimal::ZERO);
        let b = post_balance(pre, &c.state_updates, v).unwrap_or(Decimal::ZERO);
        if a != b {
            return fail("contingent_lock_charged_on_failure", format!("vault {:?} held only a contingent lock, the transaction failed, balance {} -> {}", v, a, b));
        }
    }
    // distribution
    let d = &c.fee_destination;
    let to_p = attos(d.to_proposer);
    let to_v = attos(d.to_validator_set);
    let to_b = attos(d.to_burn);
    let mut roy = BigInt::from(0);
    for (_, a) in &d.to_royalty_recipients {
        roy += attos(*a);
    }
    if to_p < BigInt::from(0) || to_v < BigInt::from(0) || to_b < BigInt::from(0) {
        return fail("negative_destination", format!("{} {} {}", to_p, to_v, to_b));
    }
    if &to_p + &to_v + &to_b + &roy != total {
        return fail("destination_sum", format!("proposer {} + validator set {} + burn {} + royalties {} != total cost {}", to_p, to_v, to_b, roy, total));
    }
    if roy != royalty {
        return fail("royalty_sum", format!("royalty recipients get {} but royalty cost is {}", roy, royalty));
    }
    // shares: tips 100% proposer; network fees 25% proposer, 25% validator set, 50% burn (documented constants)
    let net = &exec + &fin + &storage;
    let exp_p = &tip + &net / 4;
    let exp_v = &net / 4;
    let tol = BigInt::from(2);
    let dp: BigInt = &to_p - &exp_p;
    let dv: BigInt = &to_v - &exp_v;
    if dp.magnitude() > tol.magnitude() || dv.magnitude() > tol.magnitude() {
        return fail(
            "distribution_shares",
            format!("proposer gets {} (expected tips + 25% of network fees = {}), validator set gets {} (expected 25% = {}), burn {}", to_p, exp_p, to_v, exp_v, to_b),
        );
    }
    // rewards vault and proposer bookkeeping
    if let Some(rv) = rewards_vault(pre) {
        let a = fungible_vault_balance(pre, &rv).unwrap_or(Decimal::ZERO);
        let b = post_balance(pre, &c.state_updates, &rv).unwrap_or(Decimal::ZERO);
        let grew = attos(b) - attos(a);
        // an epoch change inside the same transaction pays rewards out; only check ordinary transactions
        let epoch_change = c.application_events.iter().any(|(EventTypeIdentifier(_, n), _)| n == "EpochChangeEvent");
        if !epoch_change && grew != &to_p + &to_v {
            return fail("rewards_vault_delta", format!("validator rewards vault grew by {} but to_proposer + to_validator_set = {}", grew, &to_p + &to_v));
        }
        // the proposer's share is booked on the current leader (none: everything goes to the pool)
        if !epoch_change {
            let cm = CONSENSUS_MANAGER.as_node_id();
            let ix = ConsensusManagerField::ValidatorRewards.field_index();
            let sum = |p: Option<ConsensusManagerValidatorRewardsFieldPayload>| -> BigInt {
                p.map(|p| p.fully_update_and_into_latest_version().proposer_rewards.values().fold(BigInt::from(0), |a, d| a + attos(*d))).unwrap_or(BigInt::from(0))
            };
            let before = sum(field(pre, cm, MAIN_BASE_PARTITION, ix));
            let after = sum(post_field(pre, &c.state_updates, cm, MAIN_BASE_PARTITION, ix));
            let leader = field::<ConsensusManagerStateFieldPayload>(pre, cm, MAIN_BASE_PARTITION, ConsensusManagerField::State.field_index())
                .map(|p| p.fully_update_and_into_latest_version().current_leader.is_some())
                .unwrap_or(false);
            let booked = &after - &before;
            let expected = if leader { to_p.clone() } else { BigInt::from(0) };
            if booked != expected {
                return fail("proposer_rewards_booking", format!("proposer rewards bookkeeping grew by {} but to_proposer is {} (current leader present: {})", booked, to_p, leader));
            }
        }
    }
    // burn event
    let mut burn_ev = BigInt::from(0);
    for (EventTypeIdentifier(emitter, name), payload) in &c.application_events {
        if let (Emitter::Method(n, ModuleId::Main), "BurnFungibleResourceEvent") = (emitter, name.as_str()) {
            if n == XRD.as_node_id() {
                if let Ok(ev) = scrypto_decode::<BurnFungibleResourceEvent>(payload) {
                    burn_ev += attos(ev.amount);
                }
            }
        }
    }
    if burn_ev < to_b {
        return fail("burn_event", format!("XRD burn events total {} but {} of the fee is to be burned", burn_ev, to_b));
    }
    let _ = BTreeSet::<u8>::new();
    let _ = ConsensusManagerField::State;
    Ok(total)
}

/// A panic message of the executor's own fee sanity assertions?
pub fn is_fee_assertion(msg: &str) -> bool {
    msg.contains("Locked fee does not cover transaction cost") || msg.contains("Bad debt is non-zero") || msg.contains("Remaining collected fee isn't equal")
}
