//! C51 — locked state stays locked forever. Model-free history invariant: a stored substate
//! whose lock status is Locked (object fields, key-value entries incl. metadata entries, royalty
//! settings, non-fungible tombstones) or an owner role whose updater is None may never be
//! changed by any later commit. Every change to the store goes through a commit's state
//! updates, so each updated substate is compared with its pre-state.

use super::monitors::{Db, Fail};
use radix_common::prelude::*;
use radix_engine::object_modules::role_assignment::*;
use radix_engine::system::system_substates::*;
use radix_engine::transaction::*;
use radix_engine_interface::prelude::*;
use radix_substate_store_interface::interface::*;

#[derive(Debug, PartialEq, Clone, Copy)]
pub enum LockKind {
    NotLocked,
    LockedSubstate,
    OwnerRoleFixed,
}

pub fn lock_kind(partition: PartitionNumber, key: &SubstateKey, raw: &[u8]) -> LockKind {
    if partition == ROLE_ASSIGNMENT_BASE_PARTITION && *key == SubstateKey::Field(0) {
        if let Ok(f) = scrypto_decode::<FieldSubstate<RoleAssignmentOwnerFieldPayload>>(raw) {
            let locked = matches!(f.lock_status(), LockStatus::Locked);
            let owner = f.into_payload().fully_update_and_into_latest_version();
            if matches!(owner.owner_role_entry.updater, OwnerRoleUpdater::None) {
                return LockKind::OwnerRoleFixed;
            }
            if locked {
                return LockKind::LockedSubstate;
            }
            return LockKind::NotLocked;
        }
    }
    // fields and key-value entries share the layout V1 { payload / value, lock_status }
    match scrypto_decode::<FieldSubstate<ScryptoValue>>(raw) {
        Ok(f) if matches!(f.lock_status(), LockStatus::Locked) => LockKind::LockedSubstate,
        _ => LockKind::NotLocked,
    }
}

#[derive(Default)]
pub struct LockedStats {
    pub locked_substates_rewritten_identically: u64,
    pub newly_locked: u64,
    pub owner_roles_fixed_seen: u64,
}

pub fn c51_locked_unchanged(pre: &Db, c: &CommitResult) -> Result<LockedStats, Fail> {
    let mut st = LockedStats::default();
    for (node, nu) in &c.state_updates.by_node {
        let NodeStateUpdates::Delta { by_partition } = nu;
        for (part, pu) in by_partition {
            match pu {
                PartitionStateUpdates::Delta { by_substate } => {
                    for (key, upd) in by_substate {
                        let pre_raw = pre.get_raw_substate(node, *part, key.clone());
                        let post: Option<&Vec<u8>> = match upd {
                            DatabaseUpdate::Set(v) => Some(v),
                            DatabaseUpdate::Delete => None,
                        };
                        if let Some(pre_raw) = &pre_raw {
                            let kind = lock_kind(*part, key, pre_raw);
                            if kind != LockKind::NotLocked {
                                if post != Some(pre_raw) {
                                    return Err((
                                        "c51.locked_state_changed".into(),
                                        format!(
                                            "substate {:?} / partition {:?} / {:?} was {} and is {} by this transaction (before {} bytes, after {})",
                                            node,
                                            part,
                                            key,
                                            if kind == LockKind::OwnerRoleFixed { "an owner role with updater None" } else { "locked" },
                                            if post.is_none() { "deleted" } else { "changed" },
                                            pre_raw.len(),
                                            post.map(|p| p.len()).unwrap_or(0)
                                        ),
                                    ));
                                }
                                st.locked_substates_rewritten_identically += 1;
                                if kind == LockKind::OwnerRoleFixed {
                                    st.owner_roles_fixed_seen += 1;
                                }
                            } else if let Some(p) = post {
                                if lock_kind(*part, key, p) != LockKind::NotLocked {
                                    st.newly_locked += 1;
                                }
                            }
                        } else if let Some(p) = post {
                            if lock_kind(*part, key, p) != LockKind::NotLocked {
                                st.newly_locked += 1;
                            }
                        }
                    }
                }
                PartitionStateUpdates::Batch(BatchPartitionStateUpdate::Reset { new_substate_values }) => {
                    for (db_key, raw) in pre.list_raw_values(node, *part, None::<SubstateKey>) {
                        // the key kind is unknown here; entries of a reset partition are compared by value
                        let key = SubstateKey::Map(db_key.0.clone());
                        if lock_kind(*part, &key, &raw) != LockKind::NotLocked && !new_substate_values.values().any(|v| *v == raw) {
                            return Err(("c51.locked_state_changed".into(), format!("partition {:?} of {:?} holding a locked entry was reset", part, node)));
                        }
                    }
                }
            }
        }
    }
    Ok(st)
}
