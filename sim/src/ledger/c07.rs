//! C07 — an intent can be committed at most once before it expires.
//! Layer 1: real signed V1 / V2 (with subintents) transactions through the real validator and
//! engine over long epoch histories, with duplicated / delayed submissions and restarts.
//! Layer 2: the real `TransactionTrackerSubstateV1::{partition_for_expiry_epoch, advance}` alone
//! through very long epoch histories (ring wrap) against a map model.

use super::node::*;
use super::steps::{build_any, Body, Fault, Fee, LStep, View};
use crate::simkit::*;
use radix_common::prelude::*;
use radix_engine::blueprints::transaction_tracker::*;
use radix_engine::errors::RejectionReason;
use radix_engine::transaction::*;
use radix_engine_interface::prelude::*;
use radix_transactions::prelude::*;
use serde::{Deserialize, Serialize};
use serde_json::json;
use std::collections::{BTreeMap, BTreeSet};

#[derive(Clone, Debug, Serialize, Deserialize)]
pub enum Step {
    /// A signed partial transaction (subintent) valid for [epoch+start_off, epoch+start_off+len)
    NewPartial { start_off: i64, len: u64 },
    /// A signed + notarized transaction; `children` are partial ids; `failing` makes the
    /// manifest fail after the fee lock (commit as failure)
    NewTx { v2: bool, start_off: i64, len: u64, children: Vec<u8>, failing: bool },
    Submit { tx: u8 },
    /// n real epoch changes (one next_round system transaction each)
    Epochs { n: u16 },
    Restart,
    /// layer 2: tracker ring alone
    RingSim { seed: u64, epochs: u32 },
}

#[derive(Clone, Debug, Serialize, Deserialize)]
pub struct Cfg {
    pub n_steps: usize,
    pub max_epochs_per_step: u16,
    pub ring_epochs: u32,
}

pub struct C07;

struct Partial {
    signed: SignedPartialTransactionV2,
    start: u64,
    end: u64,
}

struct Tx {
    raw: RawNotarizedTransaction,
    start: u64,
    end: u64,
    children: Vec<u8>,
    committed: bool,
    committed_epoch: u64,
}

fn notary() -> Ed25519PrivateKey {
    Ed25519PrivateKey::from_u64(1337).unwrap()
}

fn epoch_of(node: &Node) -> u64 {
    super::steps::consensus_round(&node.db).1
}

/// Layer 2. Returns Err(detail) on a violation.
fn ring_sim(seed: u64, epochs: u32, stats: &mut Stats) -> Result<u64, (String, String)> {
    let mut rng = Rng::from_u64(seed);
    let max_range = 8640u64; // TransactionValidationConfig::latest().max_epoch_range (30 days of 5 minutes)
    let start_epoch = rng.range(1, 500);
    let mut t = TransactionTrackerSubstateV1 {
        start_epoch,
        start_partition: PARTITION_RANGE_START,
        partition_range_start_inclusive: PARTITION_RANGE_START,
        partition_range_end_inclusive: PARTITION_RANGE_END,
        epochs_per_partition: EPOCHS_PER_PARTITION,
    };
    // ring content: partition -> set of (hash id, expiry epoch)
    let mut ring: BTreeMap<u8, BTreeSet<(u64, u64)>> = BTreeMap::new();
    let mut live: BTreeMap<u64, (u64, u8)> = BTreeMap::new(); // id -> (expiry, partition stored in)
    let mut next_id = 0u64;
    let mut wraps = 0u64;
    let mut digest = 0u64;
    for e in start_epoch..start_epoch + epochs as u64 {
        // transactions committed at epoch e (at least the round change itself)
        let n_tx = 1 + rng.below(3);
        for _ in 0..n_tx {
            // an intent whose validity window admits epoch e: expiry (end_exclusive) in (e, e + max_range]
            let expiry = match rng.below(6) {
                0 => e + 1,
                1 => e + max_range,
                2 => t.start_epoch + 100 * rng.range(1, 80), // exactly on a partition boundary
                3 => (t.start_epoch + 100 * rng.range(1, 80)).saturating_sub(1),
                _ => e + rng.range(1, max_range),
            };
            let expiry = expiry.clamp(e + 1, e + max_range);
            stats.evaluations += 1;
            let p = std::panic::catch_unwind(|| t.partition_for_expiry_epoch(Epoch::of(expiry)));
            let p = match p {
                Ok(p) => p,
                Err(_) => return Err(("c07.ring_panicked".into(), format!("partition_for_expiry_epoch({}) panicked at epoch {} (tracker start {})", expiry, e, t.start_epoch))),
            };
            let Some(p) = p else {
                return Err(("c07.ring_no_partition_for_valid_expiry".into(), format!("expiry {} at epoch {} (tracker start_epoch {}) has no partition", expiry, e, t.start_epoch)));
            };
            next_id += 1;
            ring.entry(p).or_default().insert((next_id, expiry));
            live.insert(next_id, (expiry, p));
            // every still-valid recorded intent must be found where a lookup would look
            if rng.chance(1, 8) {
                if let Some((id, (x, stored))) = live.iter().nth(rng.usize_below(live.len())).map(|(a, b)| (*a, *b)) {
                    if x > e {
                        let look = t.partition_for_expiry_epoch(Epoch::of(x));
                        if look != Some(stored) || !ring.get(&stored).map(|s| s.contains(&(id, x))).unwrap_or(false) {
                            return Err((
                                "c07.ring_record_lost".into(),
                                format!("at epoch {} the record of an intent expiring at {} (stored in partition {}) is looked up in {:?} / no longer present", e, x, stored, look),
                            ));
                        }
                    }
                }
            }
            // the executor's advance condition, restated (stub): next_epoch >= start + epochs_per_partition
            if e >= t.start_epoch + t.epochs_per_partition {
                let before = t.start_partition;
                let discarded = t.advance();
                if t.start_partition < before {
                    wraps += 1;
                }
                if let Some(set) = ring.remove(&discarded) {
                    for (id, x) in set {
                        if x > e {
                            return Err((
                                "c07.ring_discards_live_record".into(),
                                format!("at epoch {} partition {} is discarded but holds the record of an intent valid until {}", e, discarded, x),
                            ));
                        }
                        live.remove(&id);
                    }
                }
            }
        }
        digest = prng::mix(digest, t.start_partition as u64 ^ (live.len() as u64) << 8);
    }
    stats.add("ring.epochs", epochs as u64);
    stats.add("ring.wraps", wraps);
    Ok(digest)
}

impl World for C07 {
    type Step = Step;
    type Cfg = Cfg;
    fn property(&self) -> &'static str {
        "C07"
    }
    fn world(&self) -> &'static str {
        "ledger"
    }
    fn rule(&self) -> String {
        "Layer 1, per run: a node from real genesis; clients sign real V1 and V2 transactions (V2 with signed subintent children, some manifests failing after the fee lock) whose validity windows are drawn against the current epoch (short, 99/100/101 epochs, maximal 8640, starting in the future or already expired); submissions are duplicated and delayed across epoch runs (epochs advance only through real next_round system transactions) and node restarts. Oracle = set of committed intents (transaction intents on success or failure, subintents on success only): a submission carrying a committed intent inside its window must be rejected with IntentHashPreviouslyCommitted, outside the window with an epoch reason, otherwise it must not be rejected for these reasons; no intent hash may appear in the nullifications of two commits. Layer 2: the real TransactionTrackerSubstateV1 (partition_for_expiry_epoch, advance) alone through tens of thousands of epochs (ring wraps) against a map model, the executor's advance condition restated. evaluations = engine executions + ring operations; distinct = distinct (epoch distance, outcome, committed-before) triples.".into()
    }
    fn assumptions(&self) -> Vec<String> {
        vec![
            "Layer 2 restates the executor's six-line advance condition (stub); partition_for_expiry_epoch and advance are the real code.".into(),
            "Quick-tier engine histories cover up to ~1200 epochs (12 partition rotations); the ring wrap (19100 epochs) is reached by the engine only in the thorough tier and by layer 2 in both.".into(),
            "Default simulator genesis: one round per epoch.".into(),
        ]
    }
    fn real_vs_stub(&self) -> serde_json::Value {
        json!({"real": ["TransactionV1Builder / TransactionV2Builder / PartialTransactionV2Builder signing", "TransactionValidator", "engine boot checks (epoch range, intent hash), update_transaction_tracker", "ConsensusManager next_round", "TransactionTrackerSubstateV1"],
               "stub_or_ours": ["clients, mempool (duplicates/delays)", "consensus driver", "advance condition in layer 2"]})
    }
    fn probes(&self) -> Vec<&'static str> {
        vec![
            "submit.first_commit",
            "submit.replay_rejected",
            "submit.replay_after_epochs_rejected",
            "submit.replay_after_100_plus_epochs_rejected",
            "submit.too_early_rejected",
            "submit.expired_rejected",
            "submit.subintent_replay_rejected",
            "submit.subintent_of_failed_parent_reused",
            "submit.failed_commit_recorded",
            "epochs.advanced",
            "tracker.partition_rotations",
            "ring.wraps",
            "fault.restart_fired",
        ]
    }
    fn budget(&self, tier: Tier) -> (u64, u64) {
        match tier {
            Tier::Quick => (120, 45),
            Tier::Thorough => (3000, 1500),
        }
    }
    fn gen_cfg(&self, rng: &mut Rng, tier: Tier, run: u64) -> Cfg {
        let long = tier == Tier::Thorough && run % 8 == 0;
        Cfg {
            n_steps: rng.range(15, 60) as usize,
            max_epochs_per_step: if long { 4000 } else { *rng.pick(&[5u16, 60, 150, 300]) },
            ring_epochs: if tier == Tier::Quick { 45_000 } else { 400_000 },
        }
    }

    fn run(&self, cfg: &Cfg, mode: Mode<Step>) -> RunOutcome<Step> {
        let mut steps = Steps::new(mode);
        let mut stats = Stats::default();
        let mut node = Node::from_base();
        let mut view = View::new();
        let mut partials: Vec<Partial> = vec![];
        let mut txs: Vec<Tx> = vec![];
        let mut committed_partials: BTreeSet<u8> = BTreeSet::new();
        let mut seen_nullifications: BTreeSet<Vec<u8>> = BTreeSet::new();
        let mut discriminator = 0u64;
        let mut digest = 0u64;
        let mut violation = None;
        let mut n = 0usize;
        let signer = Secp256k1PrivateKey::from_u64(7001).unwrap();
        let start_partition_at_genesis = tracker_start(&node);
        loop {
            let step = steps.next(|rng| {
                if n > cfg.n_steps {
                    return None;
                }
                if n == cfg.n_steps {
                    return Some(Step::RingSim { seed: rng.next_u64(), epochs: cfg.ring_epochs });
                }
                let lens = [2u64, 3, 50, 99, 100, 101, 250, 900, 8639, 8640, 8640, if rng.chance(1, 8) { 8641 } else { 1 }];
                let offs = [-3i64, -1, 0, 0, 0, 0, 0, 1, 2, if rng.chance(1, 4) { 120 } else { 0 }];
                Some(match rng.below(20) {
                    0..=2 => Step::NewPartial { start_off: *rng.pick(&offs), len: *rng.pick(&lens) },
                    3..=7 => {
                        let v2 = rng.chance(1, 2);
                        let children = if v2 && !partials.is_empty() && rng.chance(2, 3) {
                            (0..rng.range(1, 2)).map(|_| rng.below(partials.len() as u64) as u8).collect::<BTreeSet<u8>>().into_iter().collect()
                        } else {
                            vec![]
                        };
                        Step::NewTx { v2, start_off: *rng.pick(&offs), len: *rng.pick(&lens), children, failing: rng.chance(1, 3) }
                    }
                    8..=14 => Step::Submit { tx: rng.below(txs.len().max(1) as u64) as u8 },
                    15..=18 => Step::Epochs { n: rng.range(1, cfg.max_epochs_per_step as u64) as u16 },
                    _ => Step::Restart,
                })
            });
            n += 1;
            let Some(step) = step else { break };
            let ix = steps.index();
            let fail = |monitor: &str, detail: String| Violation {
                monitor: monitor.into(),
                step: ix,
                detail,
                signature: monitor.into(),
            };
            match step {
                Step::RingSim { seed, epochs } => match ring_sim(seed, epochs, &mut stats) {
                    Ok(d) => digest = prng::mix(digest, d),
                    Err((m, d)) => {
                        violation = Some(fail(&m, d));
                        break;
                    }
                },
                Step::Restart => {
                    node.restart();
                    stats.bump("fault.restart_fired");
                }
                Step::Epochs { n } => {
                    for _ in 0..n {
                        let ls = LStep { actor: 0, body: Body::Round { dt_ms: 1, skipped: 0 }, fee: Fee::Faucet, fault: Fault::None, tip_bp: 0 };
                        let super::steps::Built::System(m) = build_any(&ls, &view, &node) else { break };
                        let nonce = node.next_nonce();
                        let exe = system_executable(m, nonce, &node.validator);
                        let mut o = ExecOpts::default();
                        o.system_tx = true;
                        stats.evaluations += 1;
                        let Ok(r) = node.execute(&exe, &o) else { break };
                        if !matches!(&r.result, TransactionResult::Commit(c) if matches!(c.outcome, TransactionOutcome::Success(_))) {
                            violation = Some(fail("c07.round_change_failed", format!("next_round did not succeed: {:?}", outcome_str(&r))));
                            break;
                        }
                        node.commit(&r);
                        view.clock_ms += 1;
                        stats.bump("epochs.advanced");
                    }
                    if violation.is_some() {
                        break;
                    }
                    digest = prng::mix(digest, epoch_of(&node));
                }
                Step::NewPartial { start_off, len } => {
                    let e = epoch_of(&node) as i64;
                    let start = (e + start_off).max(0) as u64;
                    let end = start.saturating_add(len);
                    discriminator += 1;
                    let built = catch_quiet(|| {
                        PartialTransactionV2Builder::new()
                            .intent_header(IntentHeaderV2 {
                                network_id: network().id,
                                start_epoch_inclusive: Epoch::of(start),
                                end_epoch_exclusive: Epoch::of(end),
                                min_proposer_timestamp_inclusive: None,
                                max_proposer_timestamp_exclusive: None,
                                intent_discriminator: discriminator,
                            })
                            .manifest_builder(|b| b.yield_to_parent(()))
                            .sign(&signer)
                            .build_minimal()
                    });
                    if let Ok(signed) = built {
                        partials.push(Partial { signed, start, end });
                    }
                }
                Step::NewTx { v2, start_off, len, children, failing } => {
                    let e = epoch_of(&node) as i64;
                    let start = (e + start_off).max(0) as u64;
                    let end = start.saturating_add(len);
                    discriminator += 1;
                    let children: Vec<u8> = children.into_iter().filter(|c| (*c as usize) < partials.len()).collect();
                    let raw = if !v2 {
                        let mut b = ManifestBuilder::new().lock_fee_from_faucet();
                        if failing {
                            b = b.assert_worktop_contains(XRD, dec!(1));
                        }
                        let t = TransactionV1Builder::new()
                            .header(TransactionHeaderV1 {
                                network_id: network().id,
                                start_epoch_inclusive: Epoch::of(start),
                                end_epoch_exclusive: Epoch::of(end),
                                nonce: discriminator as u32,
                                notary_public_key: notary().public_key().into(),
                                notary_is_signatory: false,
                                tip_percentage: 0,
                            })
                            .manifest(b.build())
                            .sign(&signer)
                            .notarize(&notary())
                            .build();
                        t.to_raw().ok()
                    } else {
                        let ch = children.clone();
                        let built = catch_quiet(|| {
                            let mut tb = TransactionV2Builder::new();
                            for (i, c) in ch.iter().enumerate() {
                                tb = tb.add_signed_child(format!("c{}", i), partials[*c as usize].signed.clone());
                            }
                            let nch = ch.len();
                            tb.intent_header(IntentHeaderV2 {
                                network_id: network().id,
                                start_epoch_inclusive: Epoch::of(start),
                                end_epoch_exclusive: Epoch::of(end),
                                min_proposer_timestamp_inclusive: None,
                                max_proposer_timestamp_exclusive: None,
                                intent_discriminator: discriminator,
                            })
                            .transaction_header(TransactionHeaderV2 {
                                notary_public_key: notary().public_key().into(),
                                notary_is_signatory: false,
                                tip_basis_points: 0,
                            })
                            .manifest_builder(|mut b| {
                                b = b.lock_fee_from_faucet();
                                for i in 0..nch {
                                    b = b.yield_to_child(format!("c{}", i), ());
                                }
                                if failing {
                                    b = b.assert_worktop_contains(XRD, dec!(1));
                                }
                                b
                            })
                            .sign(&signer)
                            .notarize(&notary())
                            .build_minimal_no_validate()
                            .to_raw()
                            .ok()
                        });
                        built.ok().flatten()
                    };
                    if let Some(raw) = raw {
                        txs.push(Tx { raw, start, end, children: if v2 { children } else { vec![] }, committed: false, committed_epoch: 0 });
                    }
                }
                Step::Submit { tx } => {
                    let Some(t) = txs.get(tx as usize) else { continue };
                    let e = epoch_of(&node);
                    // intake: real preparation + validation
                    let validated = catch_quiet(|| t.raw.validate(&node.validator));
                    let validated = match validated {
                        Err(p) => {
                            violation = Some(fail("c07.validator_panicked", p));
                            break;
                        }
                        Ok(Err(e)) => {
                            if std::env::var("VERIF_DEBUG").is_ok() {
                                eprintln!("DEBUG invalid: window [{},{}) children {:?}: {:?}", t.start, t.end, t.children, e);
                            }
                            stats.bump("submit.statically_invalid");
                            continue;
                        }
                        Ok(Ok(v)) => v,
                    };
                    let exe = validated.create_executable();
                    let mut lo = t.start;
                    let mut hi = t.end;
                    for c in &t.children {
                        lo = lo.max(partials[*c as usize].start);
                        hi = hi.min(partials[*c as usize].end);
                    }
                    let in_window = e >= lo && e < hi;
                    let child_committed = t.children.iter().any(|c| committed_partials.contains(c));
                    let replay = t.committed || child_committed;
                    stats.evaluations += 1;
                    let mut o = ExecOpts::default();
                    o.kernel_trace = std::env::var("VERIF_KERNEL_TRACE").is_ok();
                    let r = match node.execute(&exe, &o) {
                        Ok(r) => r,
                        Err(_) => {
                            stats.bump("note.other_property.c11.engine_panicked");
                            break;
                        }
                    };
                    let reason = match &r.result {
                        TransactionResult::Reject(rj) => Some(&rj.reason),
                        _ => None,
                    };
                    let epoch_reject = matches!(reason, Some(RejectionReason::TransactionEpochNotYetValid { .. }) | Some(RejectionReason::TransactionEpochNoLongerValid { .. }));
                    let replay_reject = matches!(reason, Some(RejectionReason::IntentHashPreviouslyCommitted(_)) | Some(RejectionReason::IntentHashPreviouslyCancelled(_)));
                    let dist = if t.committed { 1 } else { 0 } + if child_committed { 2 } else { 0 };
                    stats.distinct.insert(prng::mix(prng::mix(e.saturating_sub(lo).min(9000), hi.saturating_sub(e).min(9000)), prng::mix(dist, super::outcome_class(&r))));
                    if !in_window {
                        if !(epoch_reject || (replay && replay_reject)) {
                            violation = Some(fail(
                                "c07.outside_window_not_rejected",
                                format!("transaction {} with validity window [{}, {}) executed at epoch {}: {}", tx, lo, hi, e, outcome_str(&r)),
                            ));
                            break;
                        }
                        stats.bump(if e < lo { "submit.too_early_rejected" } else { "submit.expired_rejected" });
                    } else if replay {
                        if !replay_reject {
                            violation = Some(fail(
                                "c07.committed_intent_admitted_again",
                                format!(
                                    "transaction {} (window [{}, {}), epoch {}) carries {} that was already committed, but the result is: {}",
                                    tx, lo, hi, e,
                                    if t.committed { "a transaction intent" } else { "a subintent" },
                                    outcome_str(&r)
                                ),
                            ));
                            break;
                        }
                        stats.bump(if t.committed { "submit.replay_rejected" } else { "submit.subintent_replay_rejected" });
                        if t.committed && e > t.committed_epoch {
                            stats.bump("submit.replay_after_epochs_rejected");
                            if e >= t.committed_epoch + 100 {
                                stats.bump("submit.replay_after_100_plus_epochs_rejected");
                            }
                        }
                    } else {
                        if epoch_reject || replay_reject {
                            violation = Some(fail(
                                "c07.fresh_intent_rejected",
                                format!("transaction {} (window [{}, {}), epoch {}) was never committed and is inside its window but: {}", tx, lo, hi, e, outcome_str(&r)),
                            ));
                            break;
                        }
                    }
                    if let TransactionResult::Commit(c) = &r.result {
                        for nf in &c.performed_nullifications {
                            let key = scrypto_encode(nf).unwrap();
                            if !seen_nullifications.insert(key) {
                                violation = Some(fail("c07.intent_committed_twice", format!("nullification {:?} appears in two commits", nf)));
                                break;
                            }
                        }
                        if violation.is_some() {
                            break;
                        }
                        let success = matches!(c.outcome, TransactionOutcome::Success(_));
                        let children = t.children.clone();
                        let had_failed_parent_child = children.iter().any(|c| !committed_partials.contains(c));
                        let _ = had_failed_parent_child;
                        let t = &mut txs[tx as usize];
                        t.committed = true;
                        t.committed_epoch = e;
                        stats.bump("submit.first_commit");
                        if success {
                            for c in children {
                                committed_partials.insert(c);
                            }
                        } else {
                            stats.bump("submit.failed_commit_recorded");
                            if !children.is_empty() {
                                stats.bump("submit.subintent_of_failed_parent_reused");
                            }
                        }
                        node.commit(&r);
                    }
                    digest = prng::mix(digest, super::outcome_class(&r));
                }
            }
        }
        let rotations = tracker_start(&node).0.saturating_sub(start_partition_at_genesis.0) / 100;
        stats.add("tracker.partition_rotations", rotations);
        RunOutcome {
            steps: steps.taken,
            violation,
            stats,
            digest,
        }
    }
}

fn tracker_start(node: &Node) -> (u64, u8) {
    use radix_engine::system::system_substates::FieldSubstate;
    use radix_substate_store_interface::interface::SubstateDatabaseExtensions;
    let s: Option<FieldSubstate<TransactionTrackerSubstate>> = node.db.get_substate(TRANSACTION_TRACKER.as_node_id(), MAIN_BASE_PARTITION, SubstateKey::Field(0));
    match s {
        Some(f) => {
            let v = f.into_payload().into_v1();
            (v.start_epoch, v.start_partition)
        }
        None => (0, 0),
    }
}

fn outcome_str(r: &TransactionReceipt) -> String {
    let s = match &r.result {
        TransactionResult::Commit(c) => match &c.outcome {
            TransactionOutcome::Success(_) => "committed (success)".to_string(),
            TransactionOutcome::Failure(e) => format!("committed (failure: {:?})", e),
        },
        TransactionResult::Reject(rj) => format!("rejected: {:?}", rj.reason),
        TransactionResult::Abort(a) => format!("aborted: {:?}", a.reason),
    };
    s.chars().take(300).collect()
}
