//! C08 — protected calls succeed exactly when the access rule is satisfied. Histories in which the
//! owner keeps replacing the rule that protects `mint` of a test resource (directly, or through
//! the owner-role fallback) with seeded rule trees, while three parties attempt the call with
//! seeded auth-zone programs (account proofs by amount / ids, bucket proofs, popped proofs,
//! dropped proofs, dropped signature proofs); reference evaluator of the documented semantics.

use super::node::*;
use super::steps::View;
use crate::simkit::*;
use radix_common::prelude::*;
use radix_engine::transaction::*;
use radix_engine_interface::prelude::*;
use radix_transactions::prelude::*;
use serde::{Deserialize, Serialize};
use serde_json::json;
use std::collections::BTreeSet;

/// Atoms: 0 = fungible badge A, 1 = fungible badge B, 2 = non-fungible badge resource C
#[derive(Clone, Debug, Serialize, Deserialize, PartialEq)]
pub enum Ron {
    Res(u8),
    /// C#id
    Nf(u8),
    /// signature badge of party p
    Sig(u8),
}

#[derive(Clone, Debug, Serialize, Deserialize, PartialEq)]
pub enum Basic {
    Require(Ron),
    AmountOf(String, u8),
    CountOf(u8, Vec<Ron>),
    AllOf(Vec<Ron>),
    AnyOf(Vec<Ron>),
}

#[derive(Clone, Debug, Serialize, Deserialize, PartialEq)]
pub enum Comp {
    Basic(Basic),
    AnyOf(Vec<Comp>),
    AllOf(Vec<Comp>),
}

#[derive(Clone, Debug, Serialize, Deserialize, PartialEq)]
pub enum RuleSpec {
    AllowAll,
    DenyAll,
    Protected(Comp),
}

#[derive(Clone, Debug, Serialize, Deserialize, PartialEq)]
pub enum ProofOp {
    /// create_proof_from_account_of_amount(res 0/1, amount) -> auth zone
    AcctAmount { res: u8, amount: String },
    /// create_proof_from_account_of_non_fungibles(C, ids) -> auth zone
    AcctIds { ids: Vec<u8> },
    /// withdraw `amount` of res 0/1, proof of the whole bucket -> auth zone, bucket returned afterwards
    BucketProof { res: u8, amount: String },
    /// pop the most recent proof off the auth zone and drop it
    PopDrop,
    /// pop the most recent proof and keep it as a named proof (not in the auth zone) until the end
    PopKeep,
    DropRegular,
    DropSignatures,
    DropAll,
}

#[derive(Clone, Debug, Serialize, Deserialize)]
pub enum Step {
    Setup,
    /// the owner replaces the rule; `via_owner`: the minter role falls back to the owner role and the
    /// owner role rule is what gets replaced
    SetRule { rule: RuleSpec },
    /// party attempts the protected call after running the auth-zone program; `extra_signers`:
    /// further parties whose signatures are on the transaction
    Call { party: u8, extra_signers: Vec<u8>, program: Vec<ProofOp> },
    Restart,
}

#[derive(Clone, Debug, Serialize, Deserialize)]
pub struct Cfg {
    pub n_steps: usize,
    pub fault_permille: u32,
    /// the protected role has no rule of its own: the owner role decides
    pub owner_fallback: bool,
}

pub struct C08;

fn dec(s: &str) -> Option<Decimal> {
    Decimal::try_from(s).ok()
}

/// One proof visible in the auth zone (model).
#[derive(Clone, Debug)]
struct MProof {
    res: u8,
    amount: Decimal,
    ids: BTreeSet<u8>,
}

struct Zone {
    proofs: Vec<MProof>,
    sigs: BTreeSet<u8>,
}

fn ron_ok(z: &Zone, r: &Ron) -> bool {
    match r {
        Ron::Res(k) => z.proofs.iter().any(|p| p.res == *k % 3),
        Ron::Nf(id) => z.proofs.iter().any(|p| p.res == 2 && p.ids.contains(id)),
        Ron::Sig(p) => z.sigs.contains(&(*p % 3)),
    }
}

fn basic_ok(z: &Zone, b: &Basic) -> bool {
    match b {
        Basic::Require(r) => ron_ok(z, r),
        // documented: a (single) proof of at least that amount
        Basic::AmountOf(a, res) => {
            let a = dec(a).unwrap_or(Decimal::ZERO);
            z.proofs.iter().any(|p| p.res == *res % 2 && p.amount >= a)
        }
        Basic::CountOf(n, list) => list.iter().filter(|r| ron_ok(z, r)).count() >= *n as usize,
        Basic::AllOf(list) => list.iter().all(|r| ron_ok(z, r)),
        Basic::AnyOf(list) => list.iter().any(|r| ron_ok(z, r)),
    }
}

fn comp_ok(z: &Zone, c: &Comp) -> bool {
    match c {
        Comp::Basic(b) => basic_ok(z, b),
        Comp::AnyOf(v) => v.iter().any(|c| comp_ok(z, c)),
        Comp::AllOf(v) => v.iter().all(|c| comp_ok(z, c)),
    }
}

fn rule_ok(z: &Zone, r: &RuleSpec) -> bool {
    match r {
        RuleSpec::AllowAll => true,
        RuleSpec::DenyAll => false,
        RuleSpec::Protected(c) => comp_ok(z, c),
    }
}

fn gen_ron(rng: &mut Rng) -> Ron {
    match rng.below(6) {
        0 => Ron::Res(0),
        1 => Ron::Res(1),
        2 => Ron::Res(2),
        3..=4 => Ron::Nf(rng.range(1, 9) as u8),
        _ => Ron::Sig(rng.below(3) as u8),
    }
}

fn gen_basic(rng: &mut Rng) -> Basic {
    let list = |rng: &mut Rng| -> Vec<Ron> { (0..rng.range(0, 3)).map(|_| gen_ron(rng)).collect() };
    match rng.below(8) {
        0..=2 => Basic::Require(gen_ron(rng)),
        3..=4 => Basic::AmountOf(rng.pick(&["0", "0.000000000000000001", "1", "2", "5", "10", "10.000000000000000001", "11"]).to_string(), rng.below(2) as u8),
        5 => {
            let l = list(rng);
            Basic::CountOf(rng.below(l.len() as u64 + 2) as u8, l)
        }
        6 => Basic::AllOf(list(rng)),
        _ => Basic::AnyOf(list(rng)),
    }
}

fn gen_comp(rng: &mut Rng, depth: u8) -> Comp {
    if depth == 0 || rng.chance(1, 2) {
        return Comp::Basic(gen_basic(rng));
    }
    let kids: Vec<Comp> = (0..rng.range(0, 3)).map(|_| gen_comp(rng, depth - 1)).collect();
    if rng.chance(1, 2) {
        Comp::AnyOf(kids)
    } else {
        Comp::AllOf(kids)
    }
}

impl World for C08 {
    type Step = Step;
    type Cfg = Cfg;
    fn property(&self) -> &'static str {
        "C08"
    }
    fn world(&self) -> &'static str {
        "ledger"
    }
    fn rule(&self) -> String {
        "Per run: two fungible badges and a non-fungible badge resource distributed over three parties, and a test resource whose `mint` is protected by the minter role; the owner keeps replacing the protecting rule (the minter role's own rule, or - in half of the runs - the owner role to which the minter role falls back) with seeded rule trees over require / amount-of / count-of / all-of / any-of and nested any-of / all-of (depth <= 3, incl. empty lists, count 0 and count > length, amounts around the holdings, signature badges), and the parties attempt the call after seeded auth-zone programs (account proofs by amount and by ids, proofs of whole buckets, popped-and-dropped and popped-and-kept proofs, drop of regular / signature / all proofs, additional signers), with injected system errors (F5) and restarts (F8). Oracle: a reference evaluator of the documented semantics over a model of the auth zone (a proof counts only while it is in the zone; amount-of needs one proof of at least that amount; count-of counts satisfied list entries; signature badges are virtual proofs of the signers until dropped): the call must succeed iff the rule in force is satisfied; a refused call must be refused as Unauthorized. evaluations = engine executions; distinct = distinct (rule digest, zone digest, outcome).".into()
    }
    fn assumptions(&self) -> Vec<String> {
        vec!["Only method authorization of a native resource manager is exercised (role rule and owner-role fallback). Function authorization, explicit assert_access_rule (covered for `require` by C39's badge check), the global-caller rule and nested component auth zones are not generated.".into()]
    }
    fn real_vs_stub(&self) -> serde_json::Value {
        json!({"real": ["auth module (Authorization::verify_*, auth zone stack), role assignment module (set_role, owner fallback), resource manager mint, accounts, proofs", "engine"], "stub_or_ours": ["clients", "rule generator", "reference evaluator and auth-zone model"]})
    }
    fn probes(&self) -> Vec<&'static str> {
        vec!["call.authorized", "call.unauthorized", "rule.set", "rule.amount_of_decides", "rule.count_of_decides", "zone.signature_dropped", "zone.popped_proof_not_counted", "zone.bucket_proof", "fault.inject_costing_error_fired", "fault.restart_fired"]
    }
    fn budget(&self, tier: Tier) -> (u64, u64) {
        match tier {
            Tier::Quick => (1500, 45),
            Tier::Thorough => (20_000, 900),
        }
    }
    fn gen_cfg(&self, rng: &mut Rng, _tier: Tier, _run: u64) -> Cfg {
        Cfg { n_steps: rng.range(30, 120) as usize, fault_permille: *rng.pick(&[0u32, 0, 80, 200]), owner_fallback: rng.chance(1, 2) }
    }

    fn run(&self, cfg: &Cfg, mode: Mode<Step>) -> RunOutcome<Step> {
        let mut steps = Steps::new(mode);
        let mut stats = Stats::default();
        let mut node = Node::from_base();
        let view = View::new();
        // badges: [A, B, C]; target: the protected resource
        let mut badges: Vec<ResourceAddress> = vec![];
        let mut target: Option<ResourceAddress> = None;
        let mut rule = RuleSpec::DenyAll;
        let mut digest = 0u64;
        let mut violation = None;
        let mut n = 0usize;
        for p in view.parties.iter().take(3) {
            let m = ManifestBuilder::new().lock_fee_from_faucet().get_free_xrd_from_faucet().try_deposit_entire_worktop_or_abort(p.account, None).build();
            let nonce = node.next_nonce();
            if let Ok(exe) = TxSpec::new(m, nonce, btreeset![]).build(&node.validator) {
                if let Ok(r) = node.execute(&exe, &ExecOpts::default()) {
                    node.commit(&r);
                }
            }
        }
        let mut fault_rng = Rng::from_u64(cfg.n_steps as u64 ^ 0xC08);
        // party p holds 10 of A and of B, and the C ids 3p+1 ..= 3p+3
        let held_ids = |p: usize| -> Vec<u8> { (1..=3).map(|k| (3 * p + k) as u8).collect() };
        loop {
            let step = steps.next(|rng| {
                if n > cfg.n_steps {
                    return None;
                }
                if n == 0 {
                    return Some(Step::Setup);
                }
                Some(match rng.below(10) {
                    0..=2 => Step::SetRule {
                        rule: match rng.below(12) {
                            0 => RuleSpec::AllowAll,
                            1 => RuleSpec::DenyAll,
                            _ => RuleSpec::Protected(gen_comp(rng, 3)),
                        },
                    },
                    3 => Step::Restart,
                    _ => {
                        let party = rng.below(3) as u8;
                        let mine = held_ids(party as usize);
                        let k = rng.range(0, 5);
                        let program = (0..k)
                            .map(|_| match rng.below(14) {
                                0..=3 => ProofOp::AcctAmount { res: rng.below(2) as u8, amount: rng.pick(&["0.000000000000000001", "1", "2", "5", "9.999999999999999999", "10"]).to_string() },
                                4..=6 => {
                                    let mut ids = mine.clone();
                                    rng.shuffle(&mut ids);
                                    ids.truncate(rng.range(1, 3) as usize);
                                    ProofOp::AcctIds { ids }
                                }
                                7..=8 => ProofOp::BucketProof { res: rng.below(2) as u8, amount: rng.pick(&["1", "2", "5", "10"]).to_string() },
                                9 => ProofOp::PopDrop,
                                10 => ProofOp::PopKeep,
                                11 => ProofOp::DropRegular,
                                12 => ProofOp::DropSignatures,
                                _ => ProofOp::DropAll,
                            })
                            .collect();
                        Step::Call { party, extra_signers: if rng.chance(1, 4) { vec![rng.below(3) as u8] } else { vec![] }, program }
                    }
                })
            });
            n += 1;
            let Some(step) = step else { break };
            let ix = steps.index();
            let mk = |monitor: &str, detail: String| Violation { monitor: monitor.into(), step: ix, detail, signature: monitor.into() };
            let fault = if fault_rng.below(1000) < cfg.fault_permille as u64 { Some(fault_rng.range(1, 4000)) } else { None };
            let to_ron = |r: &Ron, badges: &Vec<ResourceAddress>| -> ResourceOrNonFungible {
                match r {
                    Ron::Res(k) => ResourceOrNonFungible::Resource(badges[*k as usize % 3]),
                    Ron::Nf(id) => ResourceOrNonFungible::NonFungible(NonFungibleGlobalId::new(badges[2], NonFungibleLocalId::integer(*id as u64))),
                    Ron::Sig(p) => ResourceOrNonFungible::NonFungible(view.parties[*p as usize % 3].proof.clone()),
                }
            };
            let to_basic = |b: &Basic, badges: &Vec<ResourceAddress>| -> BasicRequirement {
                match b {
                    Basic::Require(r) => BasicRequirement::Require(to_ron(r, badges)),
                    Basic::AmountOf(a, res) => BasicRequirement::AmountOf(dec(a).unwrap_or(Decimal::ZERO), badges[*res as usize % 2]),
                    Basic::CountOf(k, l) => BasicRequirement::CountOf(*k, l.iter().map(|r| to_ron(r, badges)).collect()),
                    Basic::AllOf(l) => BasicRequirement::AllOf(l.iter().map(|r| to_ron(r, badges)).collect()),
                    Basic::AnyOf(l) => BasicRequirement::AnyOf(l.iter().map(|r| to_ron(r, badges)).collect()),
                }
            };
            fn to_comp(c: &Comp, f: &dyn Fn(&Basic) -> BasicRequirement) -> CompositeRequirement {
                match c {
                    Comp::Basic(b) => CompositeRequirement::BasicRequirement(f(b)),
                    Comp::AnyOf(v) => CompositeRequirement::AnyOf(v.iter().map(|c| to_comp(c, f)).collect()),
                    Comp::AllOf(v) => CompositeRequirement::AllOf(v.iter().map(|c| to_comp(c, f)).collect()),
                }
            }
            let to_rule = |r: &RuleSpec, badges: &Vec<ResourceAddress>| -> AccessRule {
                match r {
                    RuleSpec::AllowAll => AccessRule::AllowAll,
                    RuleSpec::DenyAll => AccessRule::DenyAll,
                    RuleSpec::Protected(c) => AccessRule::Protected(to_comp(c, &|b| to_basic(b, badges))),
                }
            };
            let mut run_tx = |node: &mut Node, m: TransactionManifestV1, signers: BTreeSet<NonFungibleGlobalId>, stats: &mut Stats, fault: Option<u64>| -> Option<(TransactionReceipt, bool)> {
                let nonce = node.next_nonce();
                let exe = TxSpec::new(m, nonce, signers).build(&node.validator).ok()?;
                let mut o = ExecOpts::default();
                o.inject_at = fault;
                o.kernel_trace = std::env::var("VERIF_KERNEL_TRACE").is_ok();
                stats.evaluations += 1;
                let r = node.execute(&exe, &o).ok()?;
                let injected = fault.is_some() && super::injection_fired(&r);
                if injected {
                    stats.bump("fault.inject_costing_error_fired");
                }
                node.commit(&r);
                Some((r, injected))
            };
            let ok = |r: &TransactionReceipt| matches!(&r.result, TransactionResult::Commit(c) if matches!(c.outcome, TransactionOutcome::Success(_)));
            let why = |r: &TransactionReceipt| -> String {
                let s = match &r.result {
                    TransactionResult::Commit(c) => format!("{:?}", c.outcome),
                    TransactionResult::Reject(r) => format!("{:?}", r.reason),
                    TransactionResult::Abort(a) => format!("{:?}", a.reason),
                };
                s[..s.len().min(400)].to_string()
            };
            let owner = &view.parties[0];
            match step.clone() {
                Step::Restart => {
                    node.restart();
                    stats.bump("fault.restart_fired");
                }
                Step::Setup => {
                    if target.is_some() {
                        continue;
                    }
                    // badges A, B: 30 units each, C: ids 1..9, all created by party 0 and handed out
                    for k in 0..3 {
                        let b = ManifestBuilder::new().lock_fee_from_faucet();
                        let m = if k < 2 {
                            b.create_fungible_resource(OwnerRole::None, true, 18, FungibleResourceRoles::default(), metadata!(), Some(Decimal::from(30u32)))
                        } else {
                            b.create_non_fungible_resource(OwnerRole::None, NonFungibleIdType::Integer, true, NonFungibleResourceRoles::default(), metadata!(), Some((1..=9u64).map(|i| (NonFungibleLocalId::integer(i), ())).collect::<Vec<_>>()))
                        }
                        .try_deposit_entire_worktop_or_abort(owner.account, None)
                        .build();
                        if let Some((r, _)) = run_tx(&mut node, m, btreeset![owner.proof.clone()], &mut stats, None) {
                            if let TransactionResult::Commit(c) = &r.result {
                                if let Some(a) = c.new_resource_addresses().first() {
                                    badges.push(*a);
                                }
                            }
                        }
                    }
                    if badges.len() != 3 {
                        violation = Some(mk("c08.harness_setup_failed", format!("{} badges", badges.len())));
                        break;
                    }
                    for p in 1..3usize {
                        let ids: Vec<NonFungibleLocalId> = held_ids(p).iter().map(|i| NonFungibleLocalId::integer(*i as u64)).collect();
                        let m = ManifestBuilder::new()
                            .lock_fee_from_faucet()
                            .withdraw_from_account(owner.account, badges[0], Decimal::from(10u32))
                            .withdraw_from_account(owner.account, badges[1], Decimal::from(10u32))
                            .withdraw_non_fungibles_from_account(owner.account, badges[2], ids)
                            .try_deposit_entire_worktop_or_abort(view.parties[p].account, None)
                            .build();
                        run_tx(&mut node, m, btreeset![owner.proof.clone()], &mut stats, None);
                    }
                    let owner_rule = rule!(require(owner.proof.clone()));
                    let roles = FungibleResourceRoles {
                        mint_roles: Some(MintRoles { minter: if cfg.owner_fallback { None } else { Some(AccessRule::DenyAll) }, minter_updater: Some(owner_rule.clone()) }),
                        ..Default::default()
                    };
                    // owner_fallback: the owner role is Updatable by itself; start with the party-0 signature so that it can be replaced
                    let m = ManifestBuilder::new()
                        .lock_fee_from_faucet()
                        .create_fungible_resource(if cfg.owner_fallback { OwnerRole::Updatable(owner_rule.clone()) } else { OwnerRole::None }, true, 18, roles, metadata!(), None)
                        .build();
                    if let Some((r, _)) = run_tx(&mut node, m, btreeset![owner.proof.clone()], &mut stats, None) {
                        if let TransactionResult::Commit(c) = &r.result {
                            target = c.new_resource_addresses().first().copied();
                        }
                    }
                    if target.is_none() {
                        violation = Some(mk("c08.harness_setup_failed", "target".into()));
                        break;
                    }
                    rule = if cfg.owner_fallback { RuleSpec::Protected(Comp::Basic(Basic::Require(Ron::Sig(0)))) } else { RuleSpec::DenyAll };
                }
                Step::SetRule { rule: new_rule } => {
                    let Some(t) = target else { continue };
                    let ar = to_rule(&new_rule, &badges);
                    // replacing needs the rule's updater: with the owner fallback the owner role updates itself,
                    // so the caller must satisfy the owner rule IN FORCE; the owner party does what it can
                    let mut b = ManifestBuilder::new().lock_fee_from_faucet();
                    if cfg.owner_fallback {
                        // present everything party 0 has: all its badges by full amount / ids
                        b = b
                            .create_proof_from_account_of_amount(owner.account, badges[0], Decimal::from(10u32))
                            .create_proof_from_account_of_amount(owner.account, badges[1], Decimal::from(10u32))
                            .create_proof_from_account_of_non_fungibles(owner.account, badges[2], held_ids(0).iter().map(|i| NonFungibleLocalId::integer(*i as u64)).collect::<Vec<_>>());
                        b = b.set_owner_role(t, ar);
                    } else {
                        b = b.set_role(t, ModuleId::Main, "minter", ar);
                    }
                    let Some((r, _)) = run_tx(&mut node, b.build(), btreeset![owner.proof.clone()], &mut stats, fault) else { continue };
                    if std::env::var("VERIF_DEBUG").is_ok() {
                        use radix_substate_store_interface::interface::SubstateDatabaseExtensions;
                        let raw: Option<ScryptoValue> = node.db.get_substate(t.as_node_id(), ROLE_ASSIGNMENT_BASE_PARTITION, SubstateKey::Field(0));
                        eprintln!("DEBUG SetRule {:?} -> ok={} {} stored owner role: {:?}", new_rule, ok(&r), why(&r), raw.map(|v| format!("{:?}", v).chars().take(300).collect::<String>()));
                    }
                    if ok(&r) {
                        if cfg.owner_fallback {
                            // was the owner allowed to do that? (same property, same evaluator)
                            let z = Zone {
                                proofs: vec![MProof { res: 0, amount: Decimal::from(10u32), ids: BTreeSet::new() }, MProof { res: 1, amount: Decimal::from(10u32), ids: BTreeSet::new() }, MProof { res: 2, amount: Decimal::from(3u32), ids: held_ids(0).into_iter().collect() }],
                                sigs: btreeset![0u8],
                            };
                            if !rule_ok(&z, &rule) {
                                violation = Some(mk("c08.authorized_although_rule_not_satisfied", format!("set_owner_role by party 0 succeeded although the owner rule in force {:?} is not satisfied by its proofs", rule)));
                                break;
                            }
                        }
                        rule = new_rule;
                        stats.bump("rule.set");
                    } else if cfg.owner_fallback && fault.is_none() {
                        let z = Zone {
                            proofs: vec![MProof { res: 0, amount: Decimal::from(10u32), ids: BTreeSet::new() }, MProof { res: 1, amount: Decimal::from(10u32), ids: BTreeSet::new() }, MProof { res: 2, amount: Decimal::from(3u32), ids: held_ids(0).into_iter().collect() }],
                            sigs: btreeset![0u8],
                        };
                        if rule_ok(&z, &rule) && why(&r).contains("Unauthorized") {
                            violation = Some(mk("c08.refused_although_rule_satisfied", format!("set_owner_role by party 0 was refused although the owner rule in force {:?} is satisfied: {}", rule, why(&r))));
                            break;
                        }
                    }
                }
                Step::Call { party, extra_signers, program } => {
                    let Some(t) = target else { continue };
                    let party = party as usize % 3;
                    let caller = &view.parties[party];
                    let mine: BTreeSet<u8> = held_ids(party).into_iter().collect();
                    // ---- build the manifest and the zone model side by side; infeasible ops are skipped in both
                    let mut b = ManifestBuilder::new().lock_fee_from_faucet();
                    let mut zone = Zone { proofs: vec![], sigs: btreeset![party as u8] };
                    for s in &extra_signers {
                        zone.sigs.insert(*s % 3);
                    }
                    // what the account still has liquid: account proofs lock, they do not consume; bucket proofs withdraw
                    let mut liquid = [Decimal::from(10u32), Decimal::from(10u32)];
                    let mut names = 0usize;
                    let mut kept = 0usize;
                    let mut buckets: Vec<String> = vec![];
                    for op in &program {
                        // account methods need the account owner's signature badge in the zone: once the
                        // signature proofs are dropped the caller can no longer use its own account
                        if matches!(op, ProofOp::AcctAmount { .. } | ProofOp::AcctIds { .. } | ProofOp::BucketProof { .. }) && !zone.sigs.contains(&(party as u8)) {
                            continue;
                        }
                        match op {
                            ProofOp::AcctAmount { res, amount } => {
                                let (r, Some(a)) = (*res as usize % 2, dec(amount)) else { continue };
                                if a > liquid[r] || !a.is_positive() {
                                    continue;
                                }
                                b = b.create_proof_from_account_of_amount(caller.account, badges[r], a);
                                zone.proofs.push(MProof { res: r as u8, amount: a, ids: BTreeSet::new() });
                            }
                            ProofOp::AcctIds { ids } => {
                                let ids: BTreeSet<u8> = ids.iter().copied().filter(|i| mine.contains(i)).collect();
                                if ids.is_empty() {
                                    continue;
                                }
                                b = b.create_proof_from_account_of_non_fungibles(caller.account, badges[2], ids.iter().map(|i| NonFungibleLocalId::integer(*i as u64)).collect::<Vec<_>>());
                                zone.proofs.push(MProof { res: 2, amount: Decimal::from(ids.len() as u32), ids });
                            }
                            ProofOp::BucketProof { res, amount } => {
                                let (r, Some(a)) = (*res as usize % 2, dec(amount)) else { continue };
                                // an account proof may have locked part of the balance: stay below what no proof has locked
                                let locked = zone.proofs.iter().filter(|p| p.res == r as u8).map(|p| p.amount).max().unwrap_or(Decimal::ZERO);
                                if a > liquid[r].checked_sub(locked).unwrap_or(Decimal::ZERO) || !a.is_positive() || kept > 0 {
                                    continue;
                                }
                                let bn = format!("bk{}", names);
                                let pn = format!("bp{}", names);
                                names += 1;
                                b = b.withdraw_from_account(caller.account, badges[r], a).take_all_from_worktop(badges[r], &bn).create_proof_from_bucket_of_all(&bn, &pn).push_to_auth_zone(&pn);
                                liquid[r] = liquid[r].checked_sub(a).unwrap();
                                buckets.push(bn);
                                zone.proofs.push(MProof { res: r as u8, amount: a, ids: BTreeSet::new() });
                                stats.bump("zone.bucket_proof");
                            }
                            ProofOp::PopDrop | ProofOp::PopKeep => {
                                if zone.proofs.is_empty() {
                                    continue;
                                }
                                let pn = format!("pp{}", names);
                                names += 1;
                                b = b.pop_from_auth_zone(&pn);
                                if matches!(op, ProofOp::PopDrop) {
                                    b = b.drop_proof(&pn);
                                } else {
                                    kept += 1;
                                }
                                zone.proofs.pop();
                                stats.bump("zone.popped_proof_not_counted");
                            }
                            ProofOp::DropRegular => {
                                b = b.drop_auth_zone_regular_proofs();
                                zone.proofs.clear();
                            }
                            ProofOp::DropSignatures => {
                                b = b.drop_auth_zone_signature_proofs();
                                zone.sigs.clear();
                                stats.bump("zone.signature_dropped");
                            }
                            ProofOp::DropAll => {
                                b = b.drop_auth_zone_proofs();
                                zone.proofs.clear();
                                zone.sigs.clear();
                            }
                        }
                    }
                    // the protected call, then clean up (named proofs / bucket proofs must go before buckets return)
                    b = b.mint_fungible(t, Decimal::ONE);
                    b = b.drop_all_proofs();
                    for bn in &buckets {
                        b = b.return_to_worktop(bn);
                    }
                    let m = b.try_deposit_entire_worktop_or_abort(caller.account, None).build();
                    let mut signers = btreeset![caller.proof.clone()];
                    for s in &extra_signers {
                        signers.insert(view.parties[*s as usize % 3].proof.clone());
                    }
                    let expected = rule_ok(&zone, &rule);
                    let Some((r, injected)) = run_tx(&mut node, m, signers, &mut stats, fault) else { continue };
                    let success = ok(&r);
                    let rd = prng::fnv64(format!("{:?}", rule).as_bytes());
                    let zd = prng::fnv64(format!("{:?}{:?}", zone.proofs, zone.sigs).as_bytes());
                    stats.distinct.insert(prng::mix(prng::mix(rd, zd), success as u64));
                    digest = prng::mix(digest, prng::mix(rd ^ zd, success as u64));
                    if injected || (fault.is_some() && !success) {
                        continue;
                    }
                    if success && !expected {
                        violation = Some(mk("c08.authorized_although_rule_not_satisfied", format!("mint by party {} succeeded; rule in force {:?}; auth zone proofs {:?}, signature badges of parties {:?}; program {:?}", party, rule, zone.proofs, zone.sigs, program)));
                        break;
                    }
                    if !success {
                        let w = why(&r);
                        if expected {
                            violation = Some(mk("c08.refused_although_rule_satisfied", format!("mint by party {} failed ({}); rule in force {:?}; auth zone proofs {:?}, signature badges of parties {:?}; program {:?}", party, w, rule, zone.proofs, zone.sigs, program)));
                            break;
                        }
                        if !w.contains("Unauthorized") {
                            violation = Some(mk("c08.refused_for_another_reason", format!("mint by party {} was expected to be refused as unauthorized but failed with {}; program {:?}", party, w, program)));
                            break;
                        }
                    }
                    stats.bump(if success { "call.authorized" } else { "call.unauthorized" });
                    // which connective decided? (reach probes)
                    let s = format!("{:?}", rule);
                    if s.contains("AmountOf") {
                        stats.bump("rule.amount_of_decides");
                    }
                    if s.contains("CountOf") {
                        stats.bump("rule.count_of_decides");
                    }
                }
            }
        }
        RunOutcome { steps: steps.taken, violation, stats, digest }
    }
}
