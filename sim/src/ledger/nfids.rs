//! C43 — non-fungible ids are never reused and data changes are restricted.

use super::node::*;
use super::steps::{account_nf_ids, View};
use crate::simkit::*;
use radix_common::prelude::*;
use radix_engine::system::system_substates::*;
use radix_engine::transaction::*;
use radix_engine_interface::prelude::*;
use radix_substate_store_interface::interface::*;
use radix_transactions::prelude::*;
use serde::{Deserialize, Serialize};
use serde_json::json;
use std::collections::{BTreeMap, BTreeSet};

/// Non-fungible data with one immutable and one mutable field.
#[derive(Debug, Clone, PartialEq, Eq, ScryptoSbor, ManifestSbor)]
pub struct Card {
    pub name: u32,
    pub level: u32,
}

impl NonFungibleData for Card {
    const MUTABLE_FIELDS: &'static [&'static str] = &["level"];
}

#[derive(Clone, Debug, Serialize, Deserialize)]
pub enum Step {
    /// creates one resource per id kind: 0 integer, 1 string, 2 bytes, 3 ruid
    Setup { kinds: Vec<u8> },
    /// explicit mint of symbolic id `id` (rendered in the id type `as_kind`, normally the resource's)
    Mint { res: u8, id: u8, as_kind: u8, by_owner: bool },
    MintRuid { res: u8, count: u8 },
    /// burn a held id (the `nth` id the owner's account holds)
    Burn { res: u8, nth: u8 },
    /// update_non_fungible_data(id, field, value); field 0 = "level" (mutable), 1 = "name" (immutable), 2 = unknown
    Update { res: u8, id: u8, field: u8, value: u32, by_owner: bool },
    Restart,
}

#[derive(Clone, Debug, Serialize, Deserialize)]
pub struct Cfg {
    pub n_steps: usize,
    pub id_pool: u8,
    pub fault_permille: u32,
}

pub struct C43;

fn render(kind: u8, id: u8) -> NonFungibleLocalId {
    match kind {
        0 => NonFungibleLocalId::integer(id as u64 + 1),
        1 => NonFungibleLocalId::string(format!("id_{}", id)).unwrap(),
        _ => NonFungibleLocalId::bytes(vec![id, 7]).unwrap(),
    }
}

fn kind_of(id: &NonFungibleLocalId) -> u8 {
    match id {
        NonFungibleLocalId::Integer(_) => 0,
        NonFungibleLocalId::String(_) => 1,
        NonFungibleLocalId::Bytes(_) => 2,
        NonFungibleLocalId::RUID(_) => 3,
    }
}

struct Res {
    addr: ResourceAddress,
    kind: u8,
    ever: BTreeSet<NonFungibleLocalId>,
    burned: BTreeSet<NonFungibleLocalId>,
    data: BTreeMap<NonFungibleLocalId, Card>,
}

fn data_entry(node: &Node, res: ResourceAddress, id: &NonFungibleLocalId) -> Option<KeyValueEntrySubstate<ScryptoValue>> {
    node.db.get_substate(res.as_node_id(), MAIN_BASE_PARTITION.at_offset(PartitionOffset(1)).unwrap(), SubstateKey::Map(scrypto_encode(id).unwrap()))
}

impl World for C43 {
    type Step = Step;
    type Cfg = Cfg;
    fn property(&self) -> &'static str {
        "C43"
    }
    fn world(&self) -> &'static str {
        "ledger"
    }
    fn rule(&self) -> String {
        "Per run: non-fungible resources of each id type (integer, string, bytes, RUID) with a data struct having one immutable and one mutable field; a seeded history of explicit mints from a small id pool (fresh ids, live ids, previously burned ids, ids of the wrong id type), RUID mints, burns of held ids, data updates of the mutable / immutable / an unknown field by the owner and by strangers, node restarts and injected system errors (F5). Oracle: per resource the set of ids ever minted - a mint of a member must fail and a mint of a fresh well-typed id by the owner must succeed; every id found in the owner's vault has the resource's id type; every burned id's data entry stays a locked empty tombstone in every later version; an update succeeds only for the mutable field by the owner and changes exactly that field. evaluations = engine executions; distinct = distinct (resource kind, step kind, id state, outcome).".into()
    }
    fn assumptions(&self) -> Vec<String> {
        vec!["All resources are owned by party 0; burns go through the owner's account.".into()]
    }
    fn real_vs_stub(&self) -> serde_json::Value {
        json!({"real": ["NonFungibleResourceManager (create, mint, mint_ruid, burn, update_non_fungible_data)", "account, vault, engine"], "stub_or_ours": ["clients", "set-of-minted-ids model"]})
    }
    fn probes(&self) -> Vec<&'static str> {
        vec!["mint.fresh_ok", "mint.live_id_refused", "mint.burned_id_refused", "mint.wrong_id_type_refused", "mint.ruid", "burn.ok", "update.mutable_ok", "update.immutable_refused", "update.stranger_refused", "tombstones_checked", "fault.inject_costing_error_fired", "fault.restart_fired"]
    }
    fn budget(&self, tier: Tier) -> (u64, u64) {
        match tier {
            Tier::Quick => (2000, 45),
            Tier::Thorough => (20_000, 900),
        }
    }
    fn gen_cfg(&self, rng: &mut Rng, _tier: Tier, _run: u64) -> Cfg {
        Cfg { n_steps: rng.range(20, 90) as usize, id_pool: rng.range(2, 6) as u8, fault_permille: *rng.pick(&[0u32, 0, 100, 250]) }
    }

    fn run(&self, cfg: &Cfg, mode: Mode<Step>) -> RunOutcome<Step> {
        let mut steps = Steps::new(mode);
        let mut stats = Stats::default();
        let mut node = Node::from_base();
        let view = View::new();
        let owner = &view.parties[0];
        let stranger = &view.parties[1];
        let mut res: Vec<Res> = vec![];
        let mut digest = 0u64;
        let mut violation = None;
        let mut n = 0usize;
        // fund owner and stranger
        for p in [owner, stranger] {
            let m = ManifestBuilder::new().lock_fee_from_faucet().get_free_xrd_from_faucet().try_deposit_entire_worktop_or_abort(p.account, None).build();
            let nonce = node.next_nonce();
            if let Ok(exe) = TxSpec::new(m, nonce, btreeset![]).build(&node.validator) {
                if let Ok(r) = node.execute(&exe, &ExecOpts::default()) {
                    node.commit(&r);
                }
            }
        }
        let mut fault_rng = Rng::from_u64(cfg.n_steps as u64 ^ 0xC43);
        loop {
            let step = steps.next(|rng| {
                if n > cfg.n_steps {
                    return None;
                }
                if n == 0 {
                    let mut kinds = vec![0u8, 1, 2, 3];
                    rng.shuffle(&mut kinds);
                    kinds.truncate(rng.range(1, 4) as usize);
                    return Some(Step::Setup { kinds });
                }
                let r = rng.below(res.len().max(1) as u64) as u8;
                let kind = res.get(r as usize).map(|x| x.kind).unwrap_or(0);
                Some(match rng.below(20) {
                    0..=7 => Step::Mint { res: r, id: rng.below(cfg.id_pool as u64) as u8, as_kind: if rng.chance(1, 10) { rng.below(3) as u8 } else { kind.min(2) }, by_owner: rng.chance(9, 10) },
                    8..=9 => Step::MintRuid { res: r, count: rng.range(1, 3) as u8 },
                    10..=14 => Step::Burn { res: r, nth: rng.below(4) as u8 },
                    15..=18 => Step::Update { res: r, id: rng.below(cfg.id_pool as u64) as u8, field: *rng.pick(&[0u8, 0, 0, 1, 1, 2]), value: rng.below(100) as u32, by_owner: rng.chance(4, 5) },
                    _ => Step::Restart,
                })
            });
            n += 1;
            let Some(step) = step else { break };
            let ix = steps.index();
            let mk = |monitor: &str, detail: String| Violation { monitor: monitor.into(), step: ix, detail, signature: monitor.into() };
            let fault = if fault_rng.below(1000) < cfg.fault_permille as u64 { Some(fault_rng.range(1, 3000)) } else { None };
            let mut run_tx = |node: &mut Node, m: TransactionManifestV1, proofs: BTreeSet<NonFungibleGlobalId>, stats: &mut Stats, fault: Option<u64>| -> Option<(TransactionReceipt, bool)> {
                let nonce = node.next_nonce();
                let exe = TxSpec::new(m, nonce, proofs).build(&node.validator).ok()?;
                let mut o = ExecOpts::default();
                o.inject_at = fault;
                o.kernel_trace = std::env::var("VERIF_KERNEL_TRACE").is_ok();
                stats.evaluations += 1;
                let r = node.execute(&exe, &o).ok()?;
                let injected = fault.is_some() && super::injection_fired(&r);
                if injected {
                    stats.bump("fault.inject_costing_error_fired");
                }
                node.commit(&r);
                Some((r, injected))
            };
            let ok = |r: &TransactionReceipt| matches!(&r.result, TransactionResult::Commit(c) if matches!(c.outcome, TransactionOutcome::Success(_)));
            match step {
                Step::Restart => {
                    node.restart();
                    stats.bump("fault.restart_fired");
                }
                Step::Setup { kinds } => {
                    if !res.is_empty() {
                        continue;
                    }
                    let rule = rule!(require(owner.proof.clone()));
                    for k in kinds {
                        let roles = NonFungibleResourceRoles {
                            mint_roles: mint_roles! { minter => rule.clone(); minter_updater => rule!(deny_all); },
                            burn_roles: burn_roles! { burner => rule.clone(); burner_updater => rule!(deny_all); },
                            non_fungible_data_update_roles: non_fungible_data_update_roles! { non_fungible_data_updater => rule.clone(); non_fungible_data_updater_updater => rule!(deny_all); },
                            ..Default::default()
                        };
                        let b = ManifestBuilder::new().lock_fee_from_faucet();
                        let m = if k == 3 {
                            b.create_ruid_non_fungible_resource(OwnerRole::Fixed(rule.clone()), true, metadata!(), roles, None::<Vec<Card>>).build()
                        } else {
                            let idt = match k {
                                0 => NonFungibleIdType::Integer,
                                1 => NonFungibleIdType::String,
                                _ => NonFungibleIdType::Bytes,
                            };
                            b.create_non_fungible_resource(OwnerRole::Fixed(rule.clone()), idt, true, roles, metadata!(), None::<Vec<(NonFungibleLocalId, Card)>>).build()
                        };
                        if let Some((r, _)) = run_tx(&mut node, m, btreeset![owner.proof.clone()], &mut stats, None) {
                            if let TransactionResult::Commit(c) = &r.result {
                                if let Some(a) = c.new_resource_addresses().first() {
                                    res.push(Res { addr: *a, kind: k, ever: BTreeSet::new(), burned: BTreeSet::new(), data: BTreeMap::new() });
                                }
                            }
                        }
                    }
                }
                Step::Mint { res: ri, id, as_kind, by_owner } => {
                    let Some(rs) = res.get_mut(ri as usize) else { continue };
                    if rs.kind == 3 {
                        continue;
                    }
                    let lid = render(as_kind, id);
                    let card = Card { name: id as u32, level: 0 };
                    let who = if by_owner { owner } else { stranger };
                    let m = ManifestBuilder::new()
                        .lock_fee_from_faucet()
                        .mint_non_fungible(rs.addr, [(lid.clone(), card.clone())])
                        .try_deposit_entire_worktop_or_abort(owner.account, None)
                        .build();
                    let Some((r, injected)) = run_tx(&mut node, m, btreeset![who.proof.clone()], &mut stats, fault) else { continue };
                    let success = ok(&r);
                    let member = rs.ever.contains(&lid);
                    let wrong_type = as_kind != rs.kind;
                    stats.distinct.insert(prng::mix(prng::mix(rs.kind as u64, 1), prng::mix(member as u64 + 2 * rs.burned.contains(&lid) as u64 + 4 * wrong_type as u64, success as u64)));
                    if success && member {
                        violation = Some(mk(
                            "c43.id_minted_twice",
                            format!("id {} of resource kind {} was minted again although it was minted before ({})", lid, rs.kind, if rs.burned.contains(&lid) { "and burned since" } else { "and is still live" }),
                        ));
                        break;
                    }
                    if success && wrong_type {
                        violation = Some(mk("c43.wrong_id_type_minted", format!("id {} was minted into a resource whose id type is kind {}", lid, rs.kind)));
                        break;
                    }
                    if success && !by_owner {
                        // not this property's business (C08), but never expected
                        stats.bump("note.other_property.c08.stranger_minted");
                    }
                    if !success && !member && !wrong_type && by_owner && !injected && fault.is_none() {
                        violation = Some(mk("c43.fresh_mint_refused", format!("mint of the fresh id {} by the owner failed: {}", lid, why(&r))));
                        break;
                    }
                    if success {
                        rs.ever.insert(lid.clone());
                        rs.data.insert(lid, card);
                        stats.bump("mint.fresh_ok");
                    } else if member {
                        stats.bump(if rs.burned.contains(&lid) { "mint.burned_id_refused" } else { "mint.live_id_refused" });
                    } else if wrong_type {
                        stats.bump("mint.wrong_id_type_refused");
                    }
                }
                Step::MintRuid { res: ri, count } => {
                    let Some(rs) = res.get_mut(ri as usize) else { continue };
                    if rs.kind != 3 {
                        continue;
                    }
                    let before: BTreeSet<NonFungibleLocalId> = account_nf_ids(&node, owner.account, rs.addr).into_iter().collect();
                    let entries: Vec<Card> = (0..count).map(|i| Card { name: i as u32, level: 0 }).collect();
                    let m = ManifestBuilder::new().lock_fee_from_faucet().mint_ruid_non_fungible(rs.addr, entries).try_deposit_entire_worktop_or_abort(owner.account, None).build();
                    let Some((r, _)) = run_tx(&mut node, m, btreeset![owner.proof.clone()], &mut stats, fault) else { continue };
                    if ok(&r) {
                        let after: BTreeSet<NonFungibleLocalId> = account_nf_ids(&node, owner.account, rs.addr).into_iter().collect();
                        for id in after.difference(&before) {
                            if kind_of(id) != 3 {
                                violation = Some(mk("c43.wrong_id_type_minted", format!("RUID resource received id {}", id)));
                            }
                            if !rs.ever.insert(id.clone()) {
                                violation = Some(mk("c43.id_minted_twice", format!("RUID {} was generated twice", id)));
                            }
                            // (which entry got which engine-generated id is not observable: take the stored data)
                            let stored = data_entry(&node, rs.addr, id).and_then(|e| e.into_value()).and_then(|v| scrypto_decode::<Card>(&scrypto_encode(&v).unwrap()).ok());
                            rs.data.insert(id.clone(), stored.unwrap_or(Card { name: 0, level: 0 }));
                        }
                        if after.difference(&before).count() != count as usize {
                            violation = Some(mk("c43.ruid_mint_count", format!("{} RUIDs requested, {} new ids in the vault", count, after.difference(&before).count())));
                        }
                        if violation.is_some() {
                            break;
                        }
                        stats.bump("mint.ruid");
                    }
                }
                Step::Burn { res: ri, nth } => {
                    let Some(rs) = res.get_mut(ri as usize) else { continue };
                    let held = account_nf_ids(&node, owner.account, rs.addr);
                    if held.is_empty() {
                        continue;
                    }
                    let id = held[nth as usize % held.len()].clone();
                    let m = ManifestBuilder::new().lock_fee_from_faucet().burn_non_fungibles_in_account(owner.account, rs.addr, [id.clone()]).build();
                    let Some((r, _)) = run_tx(&mut node, m, btreeset![owner.proof.clone()], &mut stats, fault) else { continue };
                    if ok(&r) {
                        rs.burned.insert(id.clone());
                        rs.data.remove(&id);
                        stats.bump("burn.ok");
                    }
                }
                Step::Update { res: ri, id, field, value, by_owner } => {
                    let Some(rs) = res.get_mut(ri as usize) else { continue };
                    let lid = if rs.kind == 3 {
                        match rs.data.keys().nth(id as usize % rs.data.len().max(1)) {
                            Some(k) => k.clone(),
                            None => continue,
                        }
                    } else {
                        render(rs.kind, id)
                    };
                    let fname = ["level", "name", "bogus"][field as usize % 3];
                    let who = if by_owner { owner } else { stranger };
                    let m = ManifestBuilder::new().lock_fee_from_faucet().update_non_fungible_data(rs.addr, lid.clone(), fname, value).build();
                    let Some((r, _)) = run_tx(&mut node, m, btreeset![who.proof.clone()], &mut stats, fault) else { continue };
                    let success = ok(&r);
                    let live = rs.data.contains_key(&lid);
                    stats.distinct.insert(prng::mix(prng::mix(rs.kind as u64, 2), prng::mix(field as u64 + 4 * live as u64 + 8 * by_owner as u64, success as u64)));
                    if success && (fname != "level" || !live || !by_owner) {
                        violation = Some(mk(
                            "c43.restricted_data_update_accepted",
                            format!("update of field '{}' of id {} (live: {}, by owner: {}) succeeded; only the declared-mutable field 'level' of a live id may be updated by the updater role", fname, lid, live, by_owner),
                        ));
                        break;
                    }
                    if success {
                        rs.data.get_mut(&lid).unwrap().level = value;
                        stats.bump("update.mutable_ok");
                    } else if fname != "level" {
                        stats.bump("update.immutable_refused");
                    } else if !by_owner {
                        stats.bump("update.stranger_refused");
                    }
                    // stored data equals the model (only that field changed)
                    if let Some(exp) = rs.data.get(&lid) {
                        let got = data_entry(&node, rs.addr, &lid).and_then(|e| e.into_value()).and_then(|v| scrypto_decode::<Card>(&scrypto_encode(&v).unwrap()).ok());
                        if got.as_ref() != Some(exp) {
                            violation = Some(mk("c43.stored_data_differs", format!("stored data of {} is {:?}, expected {:?}", lid, got, exp)));
                            break;
                        }
                    }
                }
            }
            // history invariants after every step: tombstones of burned ids, id types in the vault
            for rs in &res {
                for id in &rs.burned {
                    stats.bump("tombstones_checked");
                    match data_entry(&node, rs.addr, id) {
                        Some(e) => {
                            let locked = e.is_locked();
                            if e.into_value().is_some() || !locked {
                                violation = Some(mk("c43.tombstone_not_locked_empty", format!("data entry of burned id {} is not a locked empty tombstone", id)));
                            }
                        }
                        None => violation = Some(mk("c43.tombstone_missing", format!("data entry of burned id {} disappeared", id))),
                    }
                }
                for id in account_nf_ids(&node, owner.account, rs.addr) {
                    if kind_of(&id) != rs.kind {
                        violation = Some(mk("c43.wrong_id_type_stored", format!("vault of resource kind {} holds id {}", rs.kind, id)));
                    }
                }
            }
            if violation.is_some() {
                break;
            }
            digest = prng::mix(digest, res.iter().map(|r| r.ever.len() as u64 * 31 + r.burned.len() as u64).sum::<u64>());
        }
        RunOutcome { steps: steps.taken, violation, stats, digest }
    }
}

fn why(r: &TransactionReceipt) -> String {
    let s = match &r.result {
        TransactionResult::Commit(c) => format!("{:?}", c.outcome),
        TransactionResult::Reject(rj) => format!("rejected: {:?}", rj.reason),
        TransactionResult::Abort(a) => format!("aborted: {:?}", a.reason),
    };
    s.chars().take(300).collect()
}
