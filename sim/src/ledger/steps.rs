//! Symbolic step vocabulary of the ledger world, the harness-side view of what exists, and
//! the translation of a step into a real manifest.

use super::node::*;
use crate::simkit::Rng;
use radix_common::prelude::*;
use radix_engine::system::system_db_reader::{ObjectCollectionKey, SystemDatabaseReader};
use radix_engine_interface::blueprints::pool::*;
use radix_engine_interface::prelude::*;
use radix_substate_store_impls::memory_db::InMemorySubstateDatabase;
use radix_transactions::prelude::*;
use serde::{Deserialize, Serialize};

#[derive(Clone, Debug, Serialize, Deserialize, PartialEq)]
pub enum Fee {
    /// lock_fee on the faucet component (real XRD of the faucet vault)
    Faucet,
    /// lock_fee on the actor's own account
    Own { amount: String },
    /// contingent + normal lock on the own account
    OwnContingent { amount: String, contingent: String },
    /// no fee lock at all (the transaction must be rejected)
    None,
    /// lock_fee on the dedicated payer's account (a party that does nothing but pay fees, so
    /// that the change of its XRD vault is exactly what was paid)
    Payer { amount: String },
    /// normal lock on the dedicated payer, contingent lock on the actor's own account
    PayerContingent { amount: String, contingent: String },
}

#[derive(Clone, Debug, Serialize, Deserialize, PartialEq)]
pub enum Fault {
    None,
    /// F5: injected system error at the k-th costing call
    InjectAt(u64),
    /// F6: execution cost unit limit
    CostLimit(u32),
    /// F7: abort when the loan is repaid
    AbortOnRepay,
    /// C02: enumerate the injected-error position over the costing calls of this transaction
    /// (no commit), then execute it normally
    Sweep,
    /// C06: learn the total cost T with a generous lock, then probe locks of exactly T and
    /// T -/+ a few attos (no commit), then execute normally
    FeeProbe,
    /// C49: for every limit kind in the bit mask locate the smallest limit value under which this
    /// transaction still executes identically and check the threshold (no commit), then execute normally
    LimitProbe(u16),
}

#[derive(Clone, Debug, Serialize, Deserialize, PartialEq)]
pub enum Body {
    /// free XRD from the faucet into the actor's account
    Fund,
    NewFungible {
        divisibility: u8,
        track: bool,
        supply: String,
        recallable: bool,
        freezable: bool,
        /// owner role Updatable (can later be changed / locked) instead of Fixed
        #[serde(default)]
        updatable_owner: bool,
    },
    NewNonFungible {
        track: bool,
        initial: u8,
        /// engine-generated RUID ids instead of integer ids
        #[serde(default)]
        ruid: bool,
    },
    MintF { res: u8, amount: String, to: u8 },
    MintNF { res: u8, count: u8, to: u8 },
    /// withdraw from the actor's account and burn (actor must be the owner of the resource)
    BurnF { res: u8, amount: String },
    BurnNF { res: u8, count: u8 },
    Transfer { res: u8, to: u8, amount: String },
    TransferNF { res: u8, to: u8, count: u8 },
    /// withdraw without depositing: must fail (dangling bucket / non-empty worktop)
    Leak { res: u8, amount: String },
    Recall { res: u8, victim: u8, amount: String },
    Freeze { res: u8, victim: u8, flags: u8 },
    Unfreeze { res: u8, victim: u8, flags: u8 },
    NewPool1 { res: u8 },
    NewPool2 { res_a: u8, res_b: u8 },
    Contribute { pool: u8, amount_a: String, amount_b: String },
    Redeem { pool: u8, amount: String },
    NewValidator,
    Register { val: u8 },
    Stake { val: u8, amount: String },
    Unstake { val: u8, amount: String },
    Claim { val: u8 },
    /// Two proofs over overlapping ids of the actor's non-fungible vault (the first `a` ids and
    /// the last `b` ids it holds), popped and dropped in the given order, optionally with a
    /// withdrawal of one proven id attempted in between (which must fail the transaction).
    NfProofs { res: u8, a: u8, b: u8, drop_first_first: bool, withdraw_between: bool },
    /// Two overlapping fungible proofs on the actor's vault, then a withdrawal of `amount`.
    FProofs { res: u8, p1: String, p2: String, amount: String },
    SetMetadata { res: u8, key: u8, value: u8 },
    /// metadata entry with a key of `key_len` characters and a string value of `value_len` characters
    BigMetadata { res: u8, key_len: u16, value_len: u32 },
    /// `n` separate transfers in one manifest (many events, many invocations)
    MultiTransfer { res: u8, to: u8, n: u8 },
    /// F18: a native method called with arguments it does not expect (wrong types, extreme values,
    /// dangling references); `target` picks an existing global object, `method` a native method name
    Garbage { target: u8, method: String, args: Vec<GArg>, with_bucket: bool },
    LockMetadata { res: u8, key: u8 },
    RemoveMetadata { res: u8, key: u8 },
    /// role-assignment module: set the owner rule to "require signature of party `to`"
    SetOwnerRole { res: u8, to: u8 },
    LockOwnerRole { res: u8 },
    /// calls (component, method) pairs of the pre-published royalties package in one transaction:
    /// several package and component royalty recipients at once
    CallRoyalty { calls: Vec<(u8, u8)> },
    /// kind 0 free, 1 XRD, 2 USD
    SetRoyalty { comp: u8, method: u8, kind: u8, amount: String },
    LockRoyalty { comp: u8, method: u8 },
    ClaimRoyalty { comp: u8 },
    /// consensus driver: next_round(current + 1 + skipped) at clock + dt_ms
    Round { dt_ms: i64, skipped: u8 },
    /// F8
    Restart,
}

impl Body {
    pub fn kind(&self) -> &'static str {
        match self {
            Body::Fund => "Fund",
            Body::NewFungible { .. } => "NewFungible",
            Body::NewNonFungible { .. } => "NewNonFungible",
            Body::MintF { .. } => "MintF",
            Body::MintNF { .. } => "MintNF",
            Body::BurnF { .. } => "BurnF",
            Body::BurnNF { .. } => "BurnNF",
            Body::Transfer { .. } => "Transfer",
            Body::TransferNF { .. } => "TransferNF",
            Body::Leak { .. } => "Leak",
            Body::Recall { .. } => "Recall",
            Body::Freeze { .. } => "Freeze",
            Body::Unfreeze { .. } => "Unfreeze",
            Body::NewPool1 { .. } => "NewPool1",
            Body::NewPool2 { .. } => "NewPool2",
            Body::Contribute { .. } => "Contribute",
            Body::Redeem { .. } => "Redeem",
            Body::NewValidator => "NewValidator",
            Body::Register { .. } => "Register",
            Body::Stake { .. } => "Stake",
            Body::Unstake { .. } => "Unstake",
            Body::Claim { .. } => "Claim",
            Body::NfProofs { .. } => "NfProofs",
            Body::FProofs { .. } => "FProofs",
            Body::SetMetadata { .. } => "SetMetadata",
            Body::BigMetadata { .. } => "BigMetadata",
            Body::MultiTransfer { .. } => "MultiTransfer",
            Body::Garbage { .. } => "Garbage",
            Body::LockMetadata { .. } => "LockMetadata",
            Body::RemoveMetadata { .. } => "RemoveMetadata",
            Body::SetOwnerRole { .. } => "SetOwnerRole",
            Body::LockOwnerRole { .. } => "LockOwnerRole",
            Body::CallRoyalty { .. } => "CallRoyalty",
            Body::SetRoyalty { .. } => "SetRoyalty",
            Body::LockRoyalty { .. } => "LockRoyalty",
            Body::ClaimRoyalty { .. } => "ClaimRoyalty",
            Body::Round { .. } => "Round",
            Body::Restart => "Restart",
        }
    }
}

/// Argument shapes for `Body::Garbage`.
#[derive(Clone, Debug, Serialize, Deserialize, PartialEq)]
pub enum GArg {
    DecMax,
    DecMin,
    DecZero,
    DecAtto,
    DecNeg,
    U8(u8),
    U32(u32),
    U64(u64),
    I64(i64),
    Bool(bool),
    Str(u16),
    Bytes(u16),
    /// an address: 0 own account, 1 XRD, 2 a fungible, 3 a non-fungible, 4 faucet, 5 consensus manager, 6 a pool, 7 a validator
    Addr(u8),
    /// bucket / proof id that does not exist
    DanglingBucket(u32),
    DanglingProof(u32),
    /// the bucket taken from the worktop by this step (if any)
    TheBucket,
    IntId(u64),
    None,
    SomeOf(Box<GArg>),
    EnumVariant(u8, Vec<GArg>),
    Tuple(Vec<GArg>),
    Array(Vec<GArg>),
    EmptyMap,
}

pub const GARBAGE_METHODS: [&str; 40] = [
    "withdraw", "deposit", "deposit_batch", "try_deposit_or_abort", "lock_fee", "lock_contingent_fee", "create_proof_of_amount", "create_proof_of_non_fungibles", "burn", "mint", "mint_ruid", "recall", "freeze",
    "unfreeze", "take", "take_advanced", "put", "get_amount", "update_non_fungible_data", "get_non_fungible", "contribute", "redeem", "protected_deposit", "protected_withdraw", "get_redemption_value", "stake", "unstake",
    "claim_xrd", "update_fee", "update_key", "lock_owner_stake_units", "start_unlock_owner_stake_units", "next_round", "get_current_epoch", "compare_current_time", "create_validator", "set_default_deposit_rule",
    "set_resource_preference", "add_authorized_depositor", "securify",
];

#[derive(Clone, Debug, Serialize, Deserialize, PartialEq)]
pub struct LStep {
    pub actor: u8,
    pub body: Body,
    pub fee: Fee,
    pub fault: Fault,
    /// tip in basis points
    pub tip_bp: u32,
}

pub struct Party {
    pub key: Secp256k1PrivateKey,
    pub account: ComponentAddress,
    pub proof: NonFungibleGlobalId,
}

#[derive(Clone, Debug)]
pub struct FRes {
    pub addr: ResourceAddress,
    pub owner: Option<u8>,
    pub divisibility: u8,
    pub track: bool,
    pub recallable: bool,
    pub freezable: bool,
}

#[derive(Clone, Debug)]
pub struct NRes {
    pub addr: ResourceAddress,
    pub owner: u8,
    pub next_id: u64,
    pub track: bool,
    pub ruid: bool,
}

#[derive(Clone, Debug)]
pub struct PoolInfo {
    pub addr: ComponentAddress,
    pub unit: ResourceAddress,
    pub resources: Vec<ResourceAddress>,
    pub owner: u8,
}

#[derive(Clone, Debug)]
pub struct ValInfo {
    pub addr: ComponentAddress,
    pub owner: u8,
    pub stake_unit: ResourceAddress,
    pub claim_nft: ResourceAddress,
}

/// Harness-side knowledge of what exists; names in steps are indices into these vectors
/// (bound in creation order). A step naming something unbound is skipped.
pub struct View {
    pub parties: Vec<Party>,
    pub fres: Vec<FRes>,
    pub nres: Vec<NRes>,
    pub pools: Vec<PoolInfo>,
    pub vals: Vec<ValInfo>,
    pub clock_ms: i64,
}

/// Parties the generator uses as actors / counterparties.
pub const N_PARTIES: usize = 4;
/// Index of the dedicated fee payer (never an actor or counterparty).
pub const PAYER: usize = N_PARTIES;

impl View {
    pub fn new() -> Self {
        let parties = (0..N_PARTIES + 1)
            .map(|i| {
                let key = Secp256k1PrivateKey::from_u64(7000 + i as u64).unwrap();
                let pk = key.public_key();
                Party {
                    account: ComponentAddress::preallocated_account_from_public_key(&pk),
                    proof: NonFungibleGlobalId::from_public_key(&pk),
                    key,
                }
            })
            .collect();
        View {
            parties,
            fres: vec![FRes {
                addr: XRD,
                owner: None,
                divisibility: 18,
                track: true,
                recallable: false,
                freezable: false,
            }],
            nres: vec![],
            pools: vec![],
            vals: vec![],
            clock_ms: 0,
        }
    }
}

pub fn dec(s: &str) -> Option<Decimal> {
    Decimal::try_from(s).ok()
}

/// The vault an account uses for a resource, if it exists (read from the store).
pub fn account_vault(db: &InMemorySubstateDatabase, account: ComponentAddress, resource: ResourceAddress) -> Option<NodeId> {
    let reader = SystemDatabaseReader::new(db);
    let entry: Option<radix_engine::blueprints::account::AccountResourceVaultEntryPayload> = reader
        .read_object_collection_entry(
            account.as_node_id(),
            ModuleId::Main,
            ObjectCollectionKey::KeyValue(
                radix_engine::blueprints::account::AccountCollection::ResourceVaultKeyValue.collection_index(),
                &resource,
            ),
        )
        .ok()
        .flatten();
    entry.map(|e| {
        let own = e.fully_update_and_into_latest_version();
        own.0 .0
    })
}

/// The non-fungible ids an account holds of a resource (read from the store), sorted.
pub fn account_nf_ids(node: &Node, account: ComponentAddress, resource: ResourceAddress) -> Vec<NonFungibleLocalId> {
    use radix_substate_store_interface::db_key_mapper::*;
    use radix_substate_store_interface::interface::*;
    let Some(v) = account_vault(&node.db, account, resource) else { return vec![] };
    let part = MAIN_BASE_PARTITION.at_offset(PartitionOffset(1)).unwrap();
    let mut ids: Vec<NonFungibleLocalId> = node
        .db
        .list_raw_values(&v, part, None::<SubstateKey>)
        .filter_map(|(k, _)| match SpreadPrefixKeyMapper::from_db_sort_key::<MapKey>(&k) {
            SubstateKey::Map(kb) => scrypto_decode::<NonFungibleLocalId>(&kb).ok(),
            _ => None,
        })
        .collect();
    ids.sort();
    ids
}

fn owner_rule(p: &Party) -> AccessRule {
    rule!(require(p.proof.clone()))
}

pub enum Built {
    User(TransactionManifestV1),
    System(SystemTransactionManifestV1),
    Restart,
    /// the step names something that does not exist (yet): no-op
    Skip,
}

/// Builds the manifest of a step against the current view and store.
pub fn build(step: &LStep, view: &View, node: &Node) -> Built {
    let Some(actor) = view.parties.get(step.actor as usize) else { return Built::Skip };
    let acct = actor.account;
    let mut b = ManifestBuilder::new();
    b = match &step.fee {
        Fee::Faucet => b.lock_fee_from_faucet(),
        Fee::Own { amount } => match dec(amount) {
            Some(a) => b.lock_fee(acct, a),
            None => return Built::Skip,
        },
        Fee::OwnContingent { amount, contingent } => match (dec(amount), dec(contingent)) {
            (Some(a), Some(c)) => b.lock_contingent_fee(acct, c).lock_fee(acct, a),
            _ => return Built::Skip,
        },
        Fee::None => b,
        Fee::Payer { amount } => match dec(amount) {
            Some(a) => b.lock_fee(view.parties[PAYER].account, a),
            None => return Built::Skip,
        },
        Fee::PayerContingent { amount, contingent } => match (dec(amount), dec(contingent)) {
            (Some(a), Some(c)) => b.lock_contingent_fee(acct, c).lock_fee(view.parties[PAYER].account, a),
            _ => return Built::Skip,
        },
    };
    let fres = |i: &u8| view.fres.get(*i as usize);
    let nres = |i: &u8| view.nres.get(*i as usize);
    let party = |i: &u8| view.parties.get(*i as usize);
    let m = match &step.body {
        Body::Fund => b.get_free_xrd_from_faucet().try_deposit_entire_worktop_or_abort(acct, None),
        Body::NewFungible { divisibility, track, supply, recallable, freezable, updatable_owner } => {
            let Some(supply) = dec(supply) else { return Built::Skip };
            let r = owner_rule(actor);
            let roles = FungibleResourceRoles {
                mint_roles: mint_roles! { minter => r.clone(); minter_updater => rule!(deny_all); },
                burn_roles: burn_roles! { burner => r.clone(); burner_updater => rule!(deny_all); },
                freeze_roles: if *freezable { freeze_roles! { freezer => r.clone(); freezer_updater => rule!(deny_all); } } else { None },
                recall_roles: if *recallable { recall_roles! { recaller => r.clone(); recaller_updater => rule!(deny_all); } } else { None },
                withdraw_roles: None,
                deposit_roles: None,
            };
            let owner = if *updatable_owner { OwnerRole::Updatable(r) } else { OwnerRole::Fixed(r) };
            b.create_fungible_resource(owner, *track, *divisibility, roles, metadata!(), Some(supply))
                .try_deposit_entire_worktop_or_abort(acct, None)
        }
        Body::NewNonFungible { track, initial, ruid } => {
            let r = owner_rule(actor);
            let roles = NonFungibleResourceRoles {
                mint_roles: mint_roles! { minter => r.clone(); minter_updater => rule!(deny_all); },
                burn_roles: burn_roles! { burner => r.clone(); burner_updater => rule!(deny_all); },
                non_fungible_data_update_roles: non_fungible_data_update_roles! { non_fungible_data_updater => r.clone(); non_fungible_data_updater_updater => rule!(deny_all); },
                ..Default::default()
            };
            if *ruid {
                let entries: Vec<()> = (0..*initial).map(|_| ()).collect();
                b.create_ruid_non_fungible_resource(OwnerRole::Fixed(r), *track, metadata!(), roles, Some(entries))
                    .try_deposit_entire_worktop_or_abort(acct, None)
            } else {
                let entries: Vec<(NonFungibleLocalId, ())> = (0..*initial as u64).map(|i| (NonFungibleLocalId::integer(i + 1), ())).collect();
                b.create_non_fungible_resource(OwnerRole::Fixed(r), NonFungibleIdType::Integer, *track, roles, metadata!(), Some(entries))
                    .try_deposit_entire_worktop_or_abort(acct, None)
            }
        }
        Body::MintF { res, amount, to } => {
            let (Some(r), Some(a), Some(to)) = (fres(res), dec(amount), party(to)) else { return Built::Skip };
            if r.owner.is_none() {
                return Built::Skip;
            }
            b.mint_fungible(r.addr, a).try_deposit_entire_worktop_or_abort(to.account, None)
        }
        Body::MintNF { res, count, to } => {
            let (Some(r), Some(to)) = (nres(res), party(to)) else { return Built::Skip };
            if r.ruid {
                // batch mint with engine-generated ids
                let entries: Vec<()> = (0..*count).map(|_| ()).collect();
                b.mint_ruid_non_fungible(r.addr, entries).try_deposit_entire_worktop_or_abort(to.account, None)
            } else {
                let entries: Vec<(NonFungibleLocalId, ())> = (0..*count as u64).map(|i| (NonFungibleLocalId::integer(r.next_id + i), ())).collect();
                b.mint_non_fungible(r.addr, entries).try_deposit_entire_worktop_or_abort(to.account, None)
            }
        }
        Body::BurnF { res, amount } => {
            let (Some(r), Some(a)) = (fres(res), dec(amount)) else { return Built::Skip };
            if r.owner.is_none() {
                return Built::Skip;
            }
            b.withdraw_from_account(acct, r.addr, a).burn_all_from_worktop(r.addr)
        }
        Body::BurnNF { res, count } => {
            let Some(r) = nres(res) else { return Built::Skip };
            b.withdraw_from_account(acct, r.addr, Decimal::from(*count as u64)).burn_all_from_worktop(r.addr)
        }
        Body::Transfer { res, to, amount } => {
            let (Some(r), Some(a), Some(to)) = (fres(res), dec(amount), party(to)) else { return Built::Skip };
            b.withdraw_from_account(acct, r.addr, a).try_deposit_entire_worktop_or_abort(to.account, None)
        }
        Body::TransferNF { res, to, count } => {
            let (Some(r), Some(to)) = (nres(res), party(to)) else { return Built::Skip };
            b.withdraw_from_account(acct, r.addr, Decimal::from(*count as u64)).try_deposit_entire_worktop_or_abort(to.account, None)
        }
        Body::Leak { res, amount } => {
            let (Some(r), Some(a)) = (fres(res), dec(amount)) else { return Built::Skip };
            b.withdraw_from_account(acct, r.addr, a)
        }
        Body::Recall { res, victim, amount } => {
            let (Some(r), Some(a), Some(v)) = (fres(res), dec(amount), party(victim)) else { return Built::Skip };
            let Some(vault) = account_vault(&node.db, v.account, r.addr) else { return Built::Skip };
            b.recall(InternalAddress::new_or_panic(vault.0), a).try_deposit_entire_worktop_or_abort(acct, None)
        }
        Body::Freeze { res, victim, flags } | Body::Unfreeze { res, victim, flags } => {
            let (Some(r), Some(v)) = (fres(res), party(victim)) else { return Built::Skip };
            let Some(vault) = account_vault(&node.db, v.account, r.addr) else { return Built::Skip };
            let va = InternalAddress::new_or_panic(vault.0);
            let freeze = matches!(step.body, Body::Freeze { .. });
            let mut bb = b;
            if flags & 1 != 0 {
                bb = if freeze { bb.freeze_withdraw(va) } else { bb.unfreeze_withdraw(va) };
            }
            if flags & 2 != 0 {
                bb = if freeze { bb.freeze_deposit(va) } else { bb.unfreeze_deposit(va) };
            }
            if flags & 4 != 0 {
                bb = if freeze { bb.freeze_burn(va) } else { bb.unfreeze_burn(va) };
            }
            bb
        }
        Body::NewPool1 { res } => {
            let Some(r) = fres(res) else { return Built::Skip };
            b.call_function(
                POOL_PACKAGE,
                ONE_RESOURCE_POOL_BLUEPRINT,
                ONE_RESOURCE_POOL_INSTANTIATE_IDENT,
                OneResourcePoolInstantiateManifestInput {
                    owner_role: OwnerRole::Fixed(owner_rule(actor)).into(),
                    pool_manager_rule: rule!(allow_all).into(),
                    resource_address: r.addr.into(),
                    address_reservation: None,
                },
            )
        }
        Body::NewPool2 { res_a, res_b } => {
            let (Some(ra), Some(rb)) = (fres(res_a), fres(res_b)) else { return Built::Skip };
            if ra.addr == rb.addr {
                return Built::Skip;
            }
            b.call_function(
                POOL_PACKAGE,
                TWO_RESOURCE_POOL_BLUEPRINT,
                TWO_RESOURCE_POOL_INSTANTIATE_IDENT,
                TwoResourcePoolInstantiateManifestInput {
                    owner_role: OwnerRole::Fixed(owner_rule(actor)).into(),
                    pool_manager_rule: rule!(allow_all).into(),
                    resource_addresses: (ra.addr.into(), rb.addr.into()),
                    address_reservation: None,
                },
            )
        }
        Body::Contribute { pool, amount_a, amount_b } => {
            let Some(p) = view.pools.get(*pool as usize) else { return Built::Skip };
            let Some(a) = dec(amount_a) else { return Built::Skip };
            if p.resources.len() == 1 {
                b.withdraw_from_account(acct, p.resources[0], a)
                    .take_all_from_worktop(p.resources[0], "a")
                    .with_name_lookup(|b, l| b.call_method(p.addr, ONE_RESOURCE_POOL_CONTRIBUTE_IDENT, OneResourcePoolContributeManifestInput { bucket: l.bucket("a") }))
                    .try_deposit_entire_worktop_or_abort(acct, None)
            } else {
                let Some(bm) = dec(amount_b) else { return Built::Skip };
                b.withdraw_from_account(acct, p.resources[0], a)
                    .withdraw_from_account(acct, p.resources[1], bm)
                    .take_all_from_worktop(p.resources[0], "a")
                    .take_all_from_worktop(p.resources[1], "b")
                    .with_name_lookup(|b, l| {
                        b.call_method(p.addr, TWO_RESOURCE_POOL_CONTRIBUTE_IDENT, TwoResourcePoolContributeManifestInput { buckets: (l.bucket("a"), l.bucket("b")) })
                    })
                    .try_deposit_entire_worktop_or_abort(acct, None)
            }
        }
        Body::Redeem { pool, amount } => {
            let (Some(p), Some(a)) = (view.pools.get(*pool as usize), dec(amount)) else { return Built::Skip };
            b.withdraw_from_account(acct, p.unit, a)
                .take_all_from_worktop(p.unit, "u")
                .with_name_lookup(|b, l| b.call_method(p.addr, "redeem", manifest_args!(l.bucket("u"))))
                .try_deposit_entire_worktop_or_abort(acct, None)
        }
        Body::NewValidator => {
            // validator creation costs XRD (validator_creation_usd_cost); pay generously, change comes back
            let pk = Secp256k1PrivateKey::from_u64(9000 + view.vals.len() as u64).unwrap().public_key();
            b.withdraw_from_account(acct, XRD, dec!(3000))
                .take_all_from_worktop(XRD, "pay")
                .with_name_lookup(|b, l| b.create_validator(pk, dec!("0.02"), l.bucket("pay")))
                .try_deposit_entire_worktop_or_abort(acct, None)
        }
        Body::Register { val } => {
            let Some(v) = view.vals.get(*val as usize) else { return Built::Skip };
            let Some(owner) = view.parties.get(v.owner as usize) else { return Built::Skip };
            b.create_proof_from_account_of_non_fungibles(owner.account, VALIDATOR_OWNER_BADGE, [NonFungibleLocalId::bytes(v.addr.as_node_id().0).unwrap()])
                .register_validator(v.addr)
                .call_method(v.addr, VALIDATOR_UPDATE_ACCEPT_DELEGATED_STAKE_IDENT, ValidatorUpdateAcceptDelegatedStakeInput { accept_delegated_stake: true })
        }
        Body::Stake { val, amount } => {
            let (Some(v), Some(a)) = (view.vals.get(*val as usize), dec(amount)) else { return Built::Skip };
            b.withdraw_from_account(acct, XRD, a)
                .take_all_from_worktop(XRD, "s")
                .with_name_lookup(|b, l| b.stake_validator(v.addr, l.bucket("s")))
                .try_deposit_entire_worktop_or_abort(acct, None)
        }
        Body::Unstake { val, amount } => {
            let (Some(v), Some(a)) = (view.vals.get(*val as usize), dec(amount)) else { return Built::Skip };
            b.withdraw_from_account(acct, v.stake_unit, a)
                .take_all_from_worktop(v.stake_unit, "u")
                .with_name_lookup(|b, l| b.unstake_validator(v.addr, l.bucket("u")))
                .try_deposit_entire_worktop_or_abort(acct, None)
        }
        Body::Claim { val } => {
            let Some(v) = view.vals.get(*val as usize) else { return Built::Skip };
            b.withdraw_from_account(acct, v.claim_nft, dec!(1))
                .take_all_from_worktop(v.claim_nft, "c")
                .with_name_lookup(|b, l| b.claim_xrd(v.addr, l.bucket("c")))
                .try_deposit_entire_worktop_or_abort(acct, None)
        }
        Body::NfProofs { res, a, b: nb, drop_first_first, withdraw_between } => {
            let Some(r) = nres(res) else { return Built::Skip };
            let ids = account_nf_ids(node, acct, r.addr);
            if ids.is_empty() {
                return Built::Skip;
            }
            let first: Vec<NonFungibleLocalId> = ids.iter().take((*a as usize).max(1)).cloned().collect();
            // odd b: the second proof starts at the last id of the first one (always overlapping);
            // even b: taken from the other end (overlapping only on small holdings)
            let last: Vec<NonFungibleLocalId> = if nb % 2 == 1 {
                ids.iter().skip(first.len() - 1).take((*nb as usize).max(1)).cloned().collect()
            } else {
                ids.iter().rev().take((*nb as usize).max(1)).cloned().collect()
            };
            let mut bb = b
                .create_proof_from_account_of_non_fungibles(acct, r.addr, first.clone())
                .create_proof_from_account_of_non_fungibles(acct, r.addr, last)
                .pop_from_auth_zone("p2")
                .pop_from_auth_zone("p1");
            if *withdraw_between {
                bb = bb.withdraw_non_fungibles_from_account(acct, r.addr, [first[0].clone()]);
            }
            bb = if *drop_first_first { bb.drop_proof("p1").drop_proof("p2") } else { bb.drop_proof("p2").drop_proof("p1") };
            bb.try_deposit_entire_worktop_or_abort(acct, None)
        }
        Body::CallRoyalty { calls } => {
            let comps = &base_state().royalty_components;
            if comps.is_empty() || calls.is_empty() {
                return Built::Skip;
            }
            let mut bb = b;
            for (c, m) in calls {
                bb = bb.call_method(comps[*c as usize % comps.len()], ROYALTY_METHODS[*m as usize % 3], manifest_args!());
            }
            bb
        }
        Body::SetRoyalty { comp, method, kind, amount } => {
            let comps = &base_state().royalty_components;
            let (false, Some(a)) = (comps.is_empty(), dec(amount)) else { return Built::Skip };
            let ra = match kind % 3 {
                0 => RoyaltyAmount::Free,
                1 => RoyaltyAmount::Xrd(a),
                _ => RoyaltyAmount::Usd(a),
            };
            b.set_component_royalty(comps[*comp as usize % comps.len()], ROYALTY_METHODS[*method as usize % 3], ra)
        }
        Body::LockRoyalty { comp, method } => {
            let comps = &base_state().royalty_components;
            if comps.is_empty() {
                return Built::Skip;
            }
            b.lock_component_royalty(comps[*comp as usize % comps.len()], ROYALTY_METHODS[*method as usize % 3])
        }
        Body::ClaimRoyalty { comp } => {
            let comps = &base_state().royalty_components;
            if comps.is_empty() {
                return Built::Skip;
            }
            b.claim_component_royalties(comps[*comp as usize % comps.len()]).try_deposit_entire_worktop_or_abort(acct, None)
        }
        Body::FProofs { res, p1, p2, amount } => {
            let (Some(r), Some(x1), Some(x2), Some(a)) = (fres(res), dec(p1), dec(p2), dec(amount)) else { return Built::Skip };
            b.create_proof_from_account_of_amount(acct, r.addr, x1)
                .create_proof_from_account_of_amount(acct, r.addr, x2)
                .withdraw_from_account(acct, r.addr, a)
                .try_deposit_entire_worktop_or_abort(acct, None)
        }
        Body::SetMetadata { res, key, value } => {
            let Some(r) = fres(res) else { return Built::Skip };
            if r.owner.is_none() {
                return Built::Skip;
            }
            b.set_metadata(r.addr, format!("k{}", key), MetadataValue::U64(*value as u64))
        }
        Body::BigMetadata { res, key_len, value_len } => {
            let Some(r) = fres(res) else { return Built::Skip };
            if r.owner.is_none() {
                return Built::Skip;
            }
            b.set_metadata(r.addr, "k".repeat((*key_len).max(1) as usize), MetadataValue::String("v".repeat(*value_len as usize)))
        }
        Body::MultiTransfer { res, to, n } => {
            let (Some(r), Some(to)) = (fres(res), party(to)) else { return Built::Skip };
            let unit = Decimal::from_attos(I192::from(10u64.pow(18 - r.divisibility.min(18) as u32)));
            let mut bb = b;
            for _ in 0..(*n).max(1) {
                bb = bb.withdraw_from_account(acct, r.addr, unit).try_deposit_entire_worktop_or_abort(to.account, None);
            }
            bb
        }
        Body::Garbage { target, method, args, with_bucket } => {
            let addr_of = |k: u8| -> GlobalAddress {
                match k % 8 {
                    0 => acct.into(),
                    1 => XRD.into(),
                    2 => view.fres.last().map(|r| r.addr.into()).unwrap_or(XRD.into()),
                    3 => view.nres.last().map(|r| r.addr.into()).unwrap_or(XRD.into()),
                    4 => FAUCET.into(),
                    5 => CONSENSUS_MANAGER.into(),
                    6 => view.pools.last().map(|p| p.addr.into()).unwrap_or(acct.into()),
                    _ => view.vals.last().map(|v| v.addr.into()).unwrap_or(CONSENSUS_MANAGER.into()),
                }
            };
            fn val(a: &GArg, addr_of: &dyn Fn(u8) -> GlobalAddress, bucket: Option<ManifestBucket>) -> ManifestValue {
                let d = |x: Decimal| ManifestValue::Custom { value: ManifestCustomValue::Decimal(from_decimal(&x)) };
                match a {
                    GArg::DecMax => d(Decimal::MAX),
                    GArg::DecMin => d(Decimal::MIN),
                    GArg::DecZero => d(Decimal::ZERO),
                    GArg::DecAtto => d(Decimal::from_attos(I192::from(1))),
                    GArg::DecNeg => d(Decimal::from(-1)),
                    GArg::U8(x) => ManifestValue::U8 { value: *x },
                    GArg::U32(x) => ManifestValue::U32 { value: *x },
                    GArg::U64(x) => ManifestValue::U64 { value: *x },
                    GArg::I64(x) => ManifestValue::I64 { value: *x },
                    GArg::Bool(x) => ManifestValue::Bool { value: *x },
                    GArg::Str(n) => ManifestValue::String { value: "s".repeat(*n as usize) },
                    GArg::Bytes(n) => ManifestValue::Array { element_value_kind: ManifestValueKind::U8, elements: (0..*n).map(|i| ManifestValue::U8 { value: i as u8 }).collect() },
                    GArg::Addr(k) => ManifestValue::Custom { value: ManifestCustomValue::Address(ManifestAddress::Static(addr_of(*k).into_node_id())) },
                    GArg::DanglingBucket(i) => ManifestValue::Custom { value: ManifestCustomValue::Bucket(ManifestBucket(1000 + *i)) },
                    GArg::DanglingProof(i) => ManifestValue::Custom { value: ManifestCustomValue::Proof(ManifestProof(1000 + *i)) },
                    GArg::TheBucket => match bucket {
                        Some(b) => ManifestValue::Custom { value: ManifestCustomValue::Bucket(b) },
                        None => ManifestValue::Tuple { fields: vec![] },
                    },
                    GArg::IntId(i) => ManifestValue::Custom { value: ManifestCustomValue::NonFungibleLocalId(from_non_fungible_local_id(NonFungibleLocalId::integer(*i))) },
                    GArg::None => ManifestValue::Enum { discriminator: 0, fields: vec![] },
                    GArg::SomeOf(x) => ManifestValue::Enum { discriminator: 1, fields: vec![val(x, addr_of, bucket)] },
                    GArg::EnumVariant(k, f) => ManifestValue::Enum { discriminator: *k, fields: f.iter().map(|x| val(x, addr_of, bucket)).collect() },
                    GArg::Tuple(f) => ManifestValue::Tuple { fields: f.iter().map(|x| val(x, addr_of, bucket)).collect() },
                    GArg::Array(f) => {
                        let elems: Vec<ManifestValue> = f.iter().map(|x| val(x, addr_of, bucket)).collect();
                        // arrays must be homogeneous to encode: the first element, repeated
                        let kind = |v: &ManifestValue| -> ManifestValueKind {
                            match v {
                                ManifestValue::Bool { .. } => ManifestValueKind::Bool,
                                ManifestValue::U8 { .. } => ManifestValueKind::U8,
                                ManifestValue::U32 { .. } => ManifestValueKind::U32,
                                ManifestValue::U64 { .. } => ManifestValueKind::U64,
                                ManifestValue::I64 { .. } => ManifestValueKind::I64,
                                ManifestValue::String { .. } => ManifestValueKind::String,
                                ManifestValue::Enum { .. } => ManifestValueKind::Enum,
                                ManifestValue::Array { .. } => ManifestValueKind::Array,
                                ManifestValue::Tuple { .. } => ManifestValueKind::Tuple,
                                ManifestValue::Map { .. } => ManifestValueKind::Map,
                                ManifestValue::Custom { value } => ManifestValueKind::Custom(match value {
                                    ManifestCustomValue::Address(_) => ManifestCustomValueKind::Address,
                                    ManifestCustomValue::Bucket(_) => ManifestCustomValueKind::Bucket,
                                    ManifestCustomValue::Proof(_) => ManifestCustomValueKind::Proof,
                                    ManifestCustomValue::Decimal(_) => ManifestCustomValueKind::Decimal,
                                    ManifestCustomValue::NonFungibleLocalId(_) => ManifestCustomValueKind::NonFungibleLocalId,
                                    _ => ManifestCustomValueKind::Expression,
                                }),
                                _ => ManifestValueKind::Tuple,
                            }
                        };
                        match elems.first() {
                            Some(first) => ManifestValue::Array { element_value_kind: kind(first), elements: vec![first.clone(); elems.len()] },
                            None => ManifestValue::Array { element_value_kind: ManifestValueKind::U8, elements: vec![] },
                        }
                    }
                    GArg::EmptyMap => ManifestValue::Map { key_value_kind: ManifestValueKind::String, value_value_kind: ManifestValueKind::U8, entries: vec![] },
                }
            }
            let mut bb = b;
            let mut bucket = None;
            if *with_bucket {
                // one XRD from the own account as a real bucket argument (bucket id 0: the first one created)
                bb = bb.withdraw_from_account(acct, XRD, Decimal::ONE).take_all_from_worktop(XRD, "g");
                bucket = Some(ManifestBucket(0));
            }
            let fields: Vec<ManifestValue> = args.iter().map(|a| val(a, &addr_of, bucket)).collect();
            let args_value = ManifestValue::Tuple { fields };
            let target_addr = addr_of(*target);
            let uses_bucket = *with_bucket && format!("{:?}", args).contains("TheBucket");
            let mut instrs = bb.build_no_validate().instructions;
            instrs.push(InstructionV1::CallMethod(radix_transactions::manifest::CallMethod { address: ManifestGlobalAddress::Static(target_addr), method_name: method.clone(), args: args_value }));
            if *with_bucket && !uses_bucket {
                instrs.push(InstructionV1::ReturnToWorktop(radix_transactions::manifest::ReturnToWorktop { bucket_id: ManifestBucket(0) }));
            }
            let m = TransactionManifestV1 { instructions: instrs, blobs: Default::default(), object_names: Default::default() };
            // leftovers go back to the actor
            let mut full = m.instructions;
            full.push(InstructionV1::CallMethod(radix_transactions::manifest::CallMethod {
                address: ManifestGlobalAddress::Static(acct.into()),
                method_name: "try_deposit_batch_or_abort".to_string(),
                args: manifest_args!(ManifestExpression::EntireWorktop, Option::<ResourceOrNonFungible>::None).into(),
            }));
            return Built::User(TransactionManifestV1 { instructions: full, blobs: Default::default(), object_names: Default::default() });
        }
        Body::RemoveMetadata { res, key } => {
            let Some(r) = fres(res) else { return Built::Skip };
            if r.owner.is_none() {
                return Built::Skip;
            }
            b.call_metadata_method(r.addr, "remove", manifest_args!(format!("k{}", key)))
        }
        Body::LockMetadata { res, key } => {
            let Some(r) = fres(res) else { return Built::Skip };
            if r.owner.is_none() {
                return Built::Skip;
            }
            b.lock_metadata(r.addr, format!("k{}", key))
        }
        Body::SetOwnerRole { res, to } => {
            let (Some(r), Some(to)) = (fres(res), party(to)) else { return Built::Skip };
            if r.owner.is_none() {
                return Built::Skip;
            }
            b.set_owner_role(r.addr, rule!(require(to.proof.clone())))
        }
        Body::LockOwnerRole { res } => {
            let Some(r) = fres(res) else { return Built::Skip };
            if r.owner.is_none() {
                return Built::Skip;
            }
            b.lock_owner_role(r.addr)
        }
        Body::Round { .. } | Body::Restart => unreachable!(),
    };
    Built::User(m.build())
}

pub fn build_any(step: &LStep, view: &View, node: &Node) -> Built {
    match &step.body {
        Body::Restart => Built::Restart,
        Body::Round { dt_ms, skipped } => {
            let (round, _epoch) = consensus_round(&node.db);
            let next = round + 1 + *skipped as u64;
            let ts = view.clock_ms.saturating_add(*dt_ms);
            Built::System(
                ManifestBuilder::new_system_v1()
                    .call_method(
                        CONSENSUS_MANAGER,
                        CONSENSUS_MANAGER_NEXT_ROUND_IDENT,
                        ConsensusManagerNextRoundInput {
                            round: Round::of(next),
                            proposer_timestamp_ms: ts,
                            leader_proposal_history: LeaderProposalHistory {
                                gap_round_leaders: (round + 1..next).map(|_| 0).collect(),
                                current_leader: 0,
                                is_fallback: false,
                            },
                        },
                    )
                    .build(),
            )
        }
        _ => build(step, view, node),
    }
}

/// (round, epoch) as stored.
pub fn consensus_round(db: &InMemorySubstateDatabase) -> (u64, u64) {
    use radix_engine::blueprints::consensus_manager::*;
    let reader = SystemDatabaseReader::new(db);
    let s = reader
        .read_typed_object_field::<ConsensusManagerStateFieldPayload>(
            CONSENSUS_MANAGER.as_node_id(),
            ModuleId::Main,
            ConsensusManagerField::State.field_index(),
        )
        .unwrap()
        .fully_update_and_into_latest_version();
    (s.round.number(), s.epoch.number())
}

/// After a successful commit: bind the names the step created.
pub fn absorb(step: &LStep, view: &mut View, receipt: &radix_engine::transaction::TransactionReceipt, node: &Node) {
    use radix_engine::transaction::*;
    let TransactionResult::Commit(c) = &receipt.result else { return };
    if let Body::Round { dt_ms, .. } = &step.body {
        if matches!(c.outcome, TransactionOutcome::Success(_)) {
            view.clock_ms = view.clock_ms.saturating_add(*dt_ms);
        }
        return;
    }
    if !matches!(c.outcome, TransactionOutcome::Success(_)) {
        return;
    }
    match &step.body {
        Body::NewFungible { divisibility, track, recallable, freezable, .. } => {
            if let Some(addr) = c.new_resource_addresses().first() {
                view.fres.push(FRes {
                    addr: *addr,
                    owner: Some(step.actor),
                    divisibility: *divisibility,
                    track: *track,
                    recallable: *recallable,
                    freezable: *freezable,
                });
            }
        }
        Body::NewNonFungible { track, initial, ruid } => {
            if let Some(addr) = c.new_resource_addresses().first() {
                view.nres.push(NRes {
                    addr: *addr,
                    owner: step.actor,
                    next_id: *initial as u64 + 1,
                    track: *track,
                    ruid: *ruid,
                });
            }
        }
        Body::MintNF { res, count, .. } => {
            if let Some(r) = view.nres.get_mut(*res as usize) {
                r.next_id += *count as u64;
            }
        }
        Body::NewPool1 { res } => {
            if let (Some(addr), Some(unit)) = (c.new_component_addresses().first(), c.new_resource_addresses().first()) {
                view.pools.push(PoolInfo {
                    addr: *addr,
                    unit: *unit,
                    resources: vec![view.fres[*res as usize].addr],
                    owner: step.actor,
                });
            }
        }
        Body::NewPool2 { res_a, res_b } => {
            if let (Some(addr), Some(unit)) = (c.new_component_addresses().first(), c.new_resource_addresses().first()) {
                view.pools.push(PoolInfo {
                    addr: *addr,
                    unit: *unit,
                    resources: vec![view.fres[*res_a as usize].addr, view.fres[*res_b as usize].addr],
                    owner: step.actor,
                });
            }
        }
        Body::NewValidator => {
            if let Some(addr) = c.new_component_addresses().first() {
                let rs = c.new_resource_addresses();
                if rs.len() >= 2 {
                    // identify stake unit (fungible) vs claim NFT (non-fungible) by entity type
                    let (mut su, mut cl) = (None, None);
                    for r in rs {
                        match r.as_node_id().entity_type() {
                            Some(EntityType::GlobalFungibleResourceManager) => su = Some(*r),
                            Some(EntityType::GlobalNonFungibleResourceManager) => cl = Some(*r),
                            _ => {}
                        }
                    }
                    if let (Some(su), Some(cl)) = (su, cl) {
                        view.vals.push(ValInfo {
                            addr: *addr,
                            owner: step.actor,
                            stake_unit: su,
                            claim_nft: cl,
                        });
                    }
                }
            }
        }
        _ => {}
    }
    let _ = node;
}

// -------------------------------------------------------------------------------------------------
// Generator

#[derive(Clone, Debug, Serialize, Deserialize)]
pub struct Weights {
    pub transfers: u32,
    pub resources: u32,
    pub pools: u32,
    pub validators: u32,
    pub rounds: u32,
    pub failures: u32,
    pub metadata: u32,
    pub restarts: u32,
    /// The repository's ResourceDatabaseChecker has a `todo!()` for the FreezeStatus field of
    /// fungible vaults; runs that use it as a second opinion create no freezable resources.
    #[serde(default)]
    pub allow_freezable: bool,
    /// C06: most fees are locked on the dedicated payer
    #[serde(default)]
    pub payer_fees: bool,
    /// calls into / administration of the pre-published royalties package
    #[serde(default)]
    pub royalties: u32,
    /// C49: long metadata keys / values and many transfers per manifest
    #[serde(default)]
    pub big_payloads: bool,
    /// F18: native methods called with unexpected arguments
    #[serde(default)]
    pub garbage: u32,
}

fn gen_garg(rng: &mut Rng, depth: u8) -> GArg {
    match rng.below(if depth == 0 { 19 } else { 24 }) {
        0 => GArg::DecMax,
        1 => GArg::DecMin,
        2 => GArg::DecZero,
        3 => GArg::DecAtto,
        4 => GArg::DecNeg,
        5 => GArg::U8(*rng.pick(&[0u8, 1, 255])),
        6 => GArg::U32(*rng.pick(&[0u32, 1, u32::MAX])),
        7 => GArg::U64(*rng.pick(&[0u64, 1, u64::MAX])),
        8 => GArg::I64(*rng.pick(&[i64::MIN, -1, 0, i64::MAX])),
        9 => GArg::Bool(rng.chance(1, 2)),
        10 => GArg::Str(*rng.pick(&[0u16, 1, 100, 5000])),
        11 => GArg::Bytes(*rng.pick(&[0u16, 32, 33, 1000])),
        12..=13 => GArg::Addr(rng.below(8) as u8),
        14 => GArg::DanglingBucket(rng.below(3) as u32),
        15 => GArg::DanglingProof(rng.below(3) as u32),
        16 => GArg::TheBucket,
        17 => GArg::IntId(*rng.pick(&[0u64, 1, u64::MAX])),
        18 => GArg::None,
        19 => GArg::SomeOf(Box::new(gen_garg(rng, depth - 1))),
        20 => GArg::EnumVariant(*rng.pick(&[0u8, 1, 2, 7, 255]), (0..rng.below(3)).map(|_| gen_garg(rng, depth - 1)).collect()),
        21 => GArg::Tuple((0..rng.below(4)).map(|_| gen_garg(rng, depth - 1)).collect()),
        22 => GArg::Array((0..rng.below(4)).map(|_| gen_garg(rng, depth - 1)).collect()),
        _ => GArg::EmptyMap,
    }
}

pub const ROYALTY_METHODS: [&str; 3] = ["method_with_no_package_royalty", "method_with_xrd_package_royalty", "method_with_usd_package_royalty"];

fn amount(rng: &mut Rng, divisibility: u8) -> String {
    // boundary-heavy amounts, respecting divisibility most of the time
    let whole = *rng.pick(&[0u64, 1, 1, 2, 3, 5, 10, 100, 1000, 12345]);
    if divisibility == 0 || rng.chance(1, 2) {
        return whole.to_string();
    }
    let digits = rng.range(1, divisibility.min(18) as u64) as usize;
    let frac: String = (0..digits).map(|_| char::from(b'0' + rng.below(10) as u8)).collect();
    format!("{}.{}", whole, frac)
}

pub fn balance(node: &Node, account: ComponentAddress, resource: ResourceAddress) -> Decimal {
    account_vault(&node.db, account, resource)
        .and_then(|v| {
            super::monitors::fungible_vault_balance(&node.db, &v).or_else(|| super::monitors::nf_vault_amount(&node.db, &v))
        })
        .unwrap_or(Decimal::ZERO)
}

/// An amount related to an actual balance: all of it, a fraction, one unit, one unit too much,
/// or (rarely) an unrelated amount.
fn amount_of(rng: &mut Rng, bal: Decimal, divisibility: u8) -> String {
    let unit = Decimal::from_attos(I192::from(10u64.pow(18 - divisibility.min(18) as u32)));
    let a = match rng.below(20) {
        0..=3 => bal,
        4..=9 => bal.checked_div(Decimal::from(*rng.pick(&[2u64, 3, 7, 10, 1000]))).unwrap_or(bal),
        10..=12 => unit,
        13 => bal.checked_add(unit).unwrap_or(bal),
        14 => bal.checked_sub(unit).unwrap_or(bal),
        15 => Decimal::ZERO,
        16 => return amount(rng, divisibility),
        _ => bal.checked_div(Decimal::from(rng.range(2, 50))).unwrap_or(bal),
    };
    let a = if a.is_negative() { Decimal::ZERO } else { a };
    let a = if rng.chance(19, 20) { a.checked_round(divisibility.min(18) as i32, RoundingMode::ToZero).unwrap_or(a) } else { a };
    a.to_string()
}

pub fn gen_step(rng: &mut Rng, view: &View, node: &Node, w: &Weights, fault_permille: u32) -> LStep {
    let np = N_PARTIES as u64;
    let mut actor = rng.below(np) as u8;
    let other = rng.below(np) as u8;
    let wild = rng.chance(1, 10);
    let nf = view.fres.len().max(1) as u64;
    let mut fr = rng.below(nf) as u8;
    // prefer a resource the actor actually holds
    if !wild {
        for _ in 0..4 {
            if let Some(r) = view.fres.get(fr as usize) {
                if balance(node, view.parties[actor as usize].account, r.addr).is_positive() {
                    break;
                }
            }
            fr = rng.below(nf) as u8;
        }
    }
    let owned: Vec<u8> = (0..view.fres.len() as u8).filter(|i| view.fres[*i as usize].owner.is_some()).collect();
    let div = view.fres.get(fr as usize).map(|r| r.divisibility).unwrap_or(18);
    let bal_of = |p: u8, r: u8| -> Decimal {
        match (view.parties.get(p as usize), view.fres.get(r as usize)) {
            (Some(p), Some(r)) => balance(node, p.account, r.addr),
            _ => Decimal::ZERO,
        }
    };
    let table: Vec<(u32, u8)> = vec![
        (w.transfers, 0),
        (w.resources, 1),
        (w.pools, 2),
        (w.validators, 3),
        (w.rounds, 4),
        (w.failures, 5),
        (w.metadata, 6),
        (w.restarts, 7),
        (w.royalties, 8),
        (w.garbage, 9),
    ];
    let class = *rng.pick_weighted(&table);
    let nn = view.nres.len().max(1) as u64;
    let body = match class {
        0 => match rng.below(10) {
            0 => Body::Fund,
            1..=2 if w.big_payloads => Body::MultiTransfer { res: fr, to: other, n: *rng.pick(&[1u8, 2, 5, 20, 60, 90]) },
            1..=7 => Body::Transfer { res: fr, to: other, amount: amount_of(rng, bal_of(actor, fr), div) },
            _ => {
                let r = rng.below(nn) as u8;
                if !wild {
                    if let Some(nr) = view.nres.get(r as usize) {
                        // the holder transfers
                        for p in 0..np as u8 {
                            if balance(node, view.parties[p as usize].account, nr.addr).is_positive() {
                                actor = p;
                                break;
                            }
                        }
                    }
                }
                match rng.below(4) {
                    0..=1 => Body::TransferNF { res: r, to: other, count: rng.range(0, 2) as u8 },
                    2 => Body::NfProofs { res: r, a: rng.range(1, 3) as u8, b: rng.range(1, 3) as u8, drop_first_first: rng.chance(1, 2), withdraw_between: rng.chance(1, 4) },
                    _ => {
                        let bal = bal_of(actor, fr);
                        Body::FProofs { res: fr, p1: amount_of(rng, bal, div), p2: amount_of(rng, bal, div), amount: amount_of(rng, bal, div) }
                    }
                }
            }
        },
        1 => {
            let sub = rng.below(12);
            // resource administration is done by the owner unless wild
            let mut r = fr;
            if sub >= 3 && !owned.is_empty() {
                r = *rng.pick(&owned);
                if !wild {
                    actor = view.fres[r as usize].owner.unwrap();
                }
            }
            let rdiv = view.fres.get(r as usize).map(|x| x.divisibility).unwrap_or(18);
            match sub {
                0..=1 => Body::NewFungible {
                    divisibility: *rng.pick(&[0u8, 1, 2, 6, 18, 18]),
                    track: rng.chance(2, 3),
                    supply: amount(rng, 0),
                    recallable: rng.chance(1, 2),
                    freezable: w.allow_freezable && rng.chance(1, 2),
                    updatable_owner: rng.chance(1, 2),
                },
                2 => Body::NewNonFungible { track: rng.chance(2, 3), initial: rng.range(0, 4) as u8, ruid: rng.chance(1, 3) },
                3..=4 => Body::MintF { res: r, amount: amount(rng, rdiv), to: other },
                5 => {
                    let n = rng.below(nn) as u8;
                    if !wild {
                        if let Some(nr) = view.nres.get(n as usize) {
                            actor = nr.owner;
                        }
                    }
                    Body::MintNF { res: n, count: rng.range(0, 3) as u8, to: other }
                }
                6..=7 => Body::BurnF { res: r, amount: amount_of(rng, bal_of(actor, r), rdiv) },
                8 => {
                    let n = rng.below(nn) as u8;
                    if !wild {
                        if let Some(nr) = view.nres.get(n as usize) {
                            actor = nr.owner;
                        }
                    }
                    Body::BurnNF { res: n, count: rng.range(0, 2) as u8 }
                }
                9 => Body::Recall { res: r, victim: other, amount: amount_of(rng, bal_of(other, r), rdiv) },
                10 => Body::Freeze { res: r, victim: other, flags: rng.range(1, 7) as u8 },
                _ => Body::Unfreeze { res: r, victim: other, flags: rng.range(1, 7) as u8 },
            }
        }
        2 => match rng.below(8) {
            0 => Body::NewPool1 { res: fr },
            1 => Body::NewPool2 { res_a: fr, res_b: rng.below(nf) as u8 },
            2..=4 => {
                let pi = rng.below(view.pools.len().max(1) as u64) as u8;
                let (mut a, mut b) = (amount(rng, 18), amount(rng, 18));
                if let Some(p) = view.pools.get(pi as usize) {
                    let acct = view.parties[actor as usize].account;
                    let d = |addr: &ResourceAddress| view.fres.iter().find(|f| f.addr == *addr).map(|f| f.divisibility).unwrap_or(18);
                    a = amount_of(rng, balance(node, acct, p.resources[0]), d(&p.resources[0]));
                    if p.resources.len() > 1 {
                        b = amount_of(rng, balance(node, acct, p.resources[1]), d(&p.resources[1]));
                    }
                }
                Body::Contribute { pool: pi, amount_a: a, amount_b: b }
            }
            _ => {
                let pi = rng.below(view.pools.len().max(1) as u64) as u8;
                let mut amt = amount(rng, 18);
                if let Some(p) = view.pools.get(pi as usize) {
                    if !wild {
                        for q in 0..np as u8 {
                            if balance(node, view.parties[q as usize].account, p.unit).is_positive() {
                                actor = q;
                                break;
                            }
                        }
                    }
                    amt = amount_of(rng, balance(node, view.parties[actor as usize].account, p.unit), 18);
                }
                Body::Redeem { pool: pi, amount: amt }
            }
        },
        3 => {
            let vi = rng.below(view.vals.len().max(1) as u64) as u8;
            let v = view.vals.get(vi as usize);
            match rng.below(10) {
                0 => Body::NewValidator,
                1..=2 => {
                    if let (Some(v), false) = (v, wild) {
                        actor = v.owner;
                    }
                    Body::Register { val: vi }
                }
                3..=5 => Body::Stake { val: vi, amount: amount_of(rng, bal_of(actor, 0).checked_div(Decimal::from(4u64)).unwrap_or(Decimal::ONE), 18) },
                6..=7 => {
                    let mut amt = amount(rng, 18);
                    if let Some(v) = v {
                        if !wild {
                            for q in 0..np as u8 {
                                if balance(node, view.parties[q as usize].account, v.stake_unit).is_positive() {
                                    actor = q;
                                    break;
                                }
                            }
                        }
                        amt = amount_of(rng, balance(node, view.parties[actor as usize].account, v.stake_unit), 18);
                    }
                    Body::Unstake { val: vi, amount: amt }
                }
                _ => {
                    if let (Some(v), false) = (v, wild) {
                        for q in 0..np as u8 {
                            if balance(node, view.parties[q as usize].account, v.claim_nft).is_positive() {
                                actor = q;
                                break;
                            }
                        }
                    }
                    Body::Claim { val: vi }
                }
            }
        }
        4 => Body::Round { dt_ms: *rng.pick(&[0i64, 1, 1000, 59_999, 60_000, 60_001, 3_600_000]), skipped: *rng.pick(&[0u8, 0, 0, 1, 3]) },
        5 => Body::Leak { res: fr, amount: amount_of(rng, bal_of(actor, fr), div) },
        6 => {
            let mut r = fr;
            if !owned.is_empty() {
                r = *rng.pick(&owned);
                if !wild {
                    actor = view.fres[r as usize].owner.unwrap();
                }
            }
            match rng.below(if w.big_payloads { 12 } else { 8 }) {
                8..=11 => Body::BigMetadata {
                    res: r,
                    key_len: *rng.pick(&[1u16, 10, 100, 101, 500, 1000, 2000]),
                    value_len: *rng.pick(&[0u32, 1, 100, 4000, 4096, 5000, 100_000]),
                },
                0 => Body::RemoveMetadata { res: r, key: rng.below(3) as u8 },
                1..=3 => Body::SetMetadata { res: r, key: rng.below(3) as u8, value: rng.below(5) as u8 },
                4..=5 => Body::LockMetadata { res: r, key: rng.below(3) as u8 },
                6 => Body::SetOwnerRole { res: r, to: rng.below(np) as u8 },
                _ => Body::LockOwnerRole { res: r },
            }
        }
        9 => {
            let target = rng.below(8) as u8;
            // mostly a method the target really has (so that the arguments are what is wrong)
            let own: &[&str] = match target {
                0 => &["withdraw", "withdraw_non_fungibles", "deposit", "deposit_batch", "try_deposit_or_abort", "try_deposit_batch_or_refund", "lock_fee", "lock_contingent_fee", "lock_fee_and_withdraw", "create_proof_of_amount", "create_proof_of_non_fungibles", "burn", "burn_non_fungibles", "securify", "set_default_deposit_rule", "set_resource_preference", "remove_resource_preference", "add_authorized_depositor", "remove_authorized_depositor", "balance", "non_fungible_local_ids", "has_non_fungible"],
                1..=3 => &["mint", "mint_ruid", "mint_single_ruid", "burn", "package_burn", "create_empty_bucket", "create_empty_vault", "get_resource_type", "get_total_supply", "amount_for_withdrawal", "drop_empty_bucket", "update_non_fungible_data", "non_fungible_exists", "get_non_fungible"],
                4 => &["free", "lock_fee"],
                5 => &["next_round", "get_current_epoch", "get_current_time", "compare_current_time", "create_validator", "start"],
                6 => &["contribute", "redeem", "protected_deposit", "protected_withdraw", "get_redemption_value", "get_vault_amount", "get_vault_amounts"],
                _ => &["stake", "stake_as_owner", "unstake", "claim_xrd", "update_fee", "update_key", "register", "unregister", "update_accept_delegated_stake", "lock_owner_stake_units", "start_unlock_owner_stake_units", "finish_unlock_owner_stake_units", "apply_emission", "apply_reward", "get_redemption_value", "signal_protocol_update_readiness", "total_stake_xrd_amount", "total_stake_unit_supply"],
            };
            let method = if rng.chance(4, 5) { rng.pick(own).to_string() } else { rng.pick(&GARBAGE_METHODS).to_string() };
            // argument lists shaped like the common signatures, with extreme values; or anything
            let decx = |rng: &mut Rng| rng.pick(&[GArg::DecMax, GArg::DecMin, GArg::DecZero, GArg::DecAtto, GArg::DecNeg]).clone();
            let (args, with_bucket) = match rng.below(8) {
                0 => (vec![GArg::Addr(rng.below(4) as u8), decx(rng)], false),
                1 => (vec![decx(rng)], false),
                2 => (vec![GArg::TheBucket], true),
                3 => (vec![GArg::TheBucket, GArg::None], true),
                4 => (vec![decx(rng), GArg::EnumVariant(rng.below(3) as u8, vec![])], false),
                5 => (vec![GArg::Addr(rng.below(4) as u8), GArg::Array(vec![GArg::IntId(*rng.pick(&[0u64, 1, u64::MAX]))])], false),
                _ => ((0..rng.below(4)).map(|_| gen_garg(rng, 2)).collect(), rng.chance(1, 3)),
            };
            Body::Garbage { target, method, args, with_bucket }
        }
        8 => match rng.below(10) {
            0..=5 => {
                let k = rng.range(1, 6) as usize;
                Body::CallRoyalty { calls: (0..k).map(|_| (rng.below(3) as u8, rng.below(3) as u8)).collect() }
            }
            6..=7 => Body::SetRoyalty {
                comp: rng.below(3) as u8,
                method: rng.below(3) as u8,
                kind: rng.below(3) as u8,
                amount: rng.pick(&["0", "0.000000000000000001", "0.05", "1", "17", "0.333333333333333333", "166"]).to_string(),
            },
            8 => Body::ClaimRoyalty { comp: rng.below(3) as u8 },
            _ => {
                if rng.chance(1, 5) {
                    Body::LockRoyalty { comp: rng.below(3) as u8, method: rng.below(3) as u8 }
                } else {
                    Body::ClaimRoyalty { comp: rng.below(3) as u8 }
                }
            }
        },
        _ => Body::Restart,
    };
    let fee = if w.payer_fees && rng.chance(4, 5) {
        // C06: dedicated payer with locks below, around and above the eventual need
        let amt = rng.pick(&["100", "10", "1", "0.6", "0.35", "0.2", "0.1", "0.05", "0.000001", "0", "5000"]).to_string();
        if rng.chance(1, 3) {
            Fee::PayerContingent { amount: amt, contingent: rng.pick(&["0", "0.1", "1", "50"]).to_string() }
        } else {
            Fee::Payer { amount: amt }
        }
    } else {
        match rng.below(10) {
        0..=5 => Fee::Faucet,
        6..=7 => Fee::Own { amount: rng.pick(&["10", "100", "0.5", "5000"]).to_string() },
        8 => Fee::OwnContingent { amount: "10".into(), contingent: rng.pick(&["1", "10", "100"]).to_string() },
        _ => {
            if rng.chance(1, 4) {
                Fee::None
            } else {
                Fee::Faucet
            }
        }
        }
    };
    let fault = if rng.below(1000) < fault_permille as u64 {
        match rng.below(10) {
            0..=6 => Fault::InjectAt(rng.range(1, 3500)),
            7..=8 => Fault::CostLimit(*rng.pick(&[1000u32, 100_000, 400_000, 1_000_000, 3_000_000])),
            _ => Fault::AbortOnRepay,
        }
    } else {
        Fault::None
    };
    let tip_bp = if w.payer_fees {
        // whole ranges of both specifiers: Percentage(u16) and BasisPoints(u32)
        match rng.below(8) {
            0..=1 => 0,
            2 => rng.range(1, 10_000) as u32,
            3 => (rng.range(1, 65_535) * 100) as u32,
            4 => rng.range(1, u32::MAX as u64) as u32,
            5 => u32::MAX,
            6 => 65_535 * 100,
            _ => *rng.pick(&[1u32, 99, 100, 101, 9_999, 10_001]),
        }
    } else {
        *rng.pick(&[0u32, 0, 0, 1, 100, 555, 10_000, 65_535 * 100])
    };
    LStep { actor, body, fee, fault, tip_bp }
}
