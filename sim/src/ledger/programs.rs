//! C09 / C10 / C36 — generated worktop / bucket / proof programs (raw instruction lists, so that
//! invalid lifecycles can be expressed) interpreted symbolically and executed on the real engine.
//!
//! Predictions are three-valued: an instruction is MustSucceed, MustFail or Unknown (where the
//! documented semantics are silent); a transaction verdict is only asserted when no Unknown
//! instruction was reached before the deciding one.

use super::node::*;
use super::steps::{account_vault, balance, View, N_PARTIES};
use crate::simkit::*;
use radix_common::prelude::*;
use radix_engine::errors::*;
use radix_engine::transaction::*;
use radix_engine_interface::prelude::*;
use radix_transactions::manifest::static_resource_movements::*;
use radix_transactions::manifest::*;
use radix_transactions::prelude::*;
use serde::{Deserialize, Serialize};
use serde_json::json;
use std::collections::{BTreeMap, BTreeSet};

#[derive(Clone, Debug, Serialize, Deserialize, PartialEq)]
pub enum PI {
    /// account withdraw of the actor's fungible resource `res` onto the worktop
    Withdraw { res: u8, amount: String },
    WithdrawIds { ids: Vec<u64> },
    Take { res: u8, amount: String },
    TakeAll { res: u8 },
    TakeIds { ids: Vec<u64> },
    TakeAllNf,
    Return { b: u8 },
    AssertAmount { res: u8, amount: String },
    AssertAny { res: u8 },
    AssertIds { ids: Vec<u64> },
    Burn { b: u8 },
    Deposit { b: u8, to: u8 },
    DepositAll { to: u8 },
    /// create_proof_of_amount on the actor's account vault (proof goes to the auth zone)
    AcctProofAmount { res: u8, amount: String },
    AcctProofIds { ids: Vec<u64> },
    BucketProofAmount { b: u8, amount: String },
    BucketProofAll { b: u8 },
    Pop,
    Push { p: u8 },
    Clone { p: u8 },
    DropProof { p: u8 },
    DropAllProofs,
    DropAuthZoneProofs,
    /// burn directly in the account vault (owner only)
    BurnInAccount { res: u8, amount: String },
}

#[derive(Clone, Debug, Serialize, Deserialize)]
pub enum Step {
    /// creates the resources of the run: `n_f` fungibles with these divisibilities and one
    /// integer-id non-fungible with `n_ids` ids, all owned by and deposited to party 0
    Setup { divisibilities: Vec<u8>, n_ids: u8 },
    Program { instrs: Vec<PI>, fault_at: Option<u64> },
}

#[derive(Clone, Debug, Serialize, Deserialize)]
pub struct Cfg {
    pub n_programs: usize,
    pub max_len: usize,
    pub invalid_permille: u32,
    pub fault_permille: u32,
}

pub struct Programs {
    pub id: &'static str,
}

const ONE: i128 = 1_000_000_000_000_000_000;

fn parse_attos(s: &str) -> Option<i128> {
    let (w, f) = match s.split_once('.') {
        Some((w, f)) => (w, f),
        None => (s, ""),
    };
    if f.len() > 18 || w.is_empty() || !w.chars().all(|c| c.is_ascii_digit()) || !f.chars().all(|c| c.is_ascii_digit()) {
        return None;
    }
    let w: i128 = w.parse().ok()?;
    let mut frac = f.to_string();
    while frac.len() < 18 {
        frac.push('0');
    }
    let fr: i128 = if frac.is_empty() { 0 } else { frac.parse().ok()? };
    Some(w * ONE + fr)
}

fn fmt_attos(a: i128) -> String {
    format!("{}.{:018}", a / ONE, a % ONE)
}

fn divisible(a: i128, div: u8) -> bool {
    a >= 0 && a % 10i128.pow(18 - div.min(18) as u32) == 0
}

#[derive(Clone, Copy, PartialEq, Debug)]
enum Pred {
    Ok,
    Fail,
    Unknown,
}

#[derive(Clone, Debug)]
enum Hold {
    F(u8, i128),
    N(BTreeSet<u64>),
}

#[derive(Clone, Debug)]
struct Bucket {
    hold: Hold,
    proofs: u32,
}

#[derive(Clone, Debug)]
enum PSrc {
    Vault(u8, i128),
    VaultIds(BTreeSet<u64>),
    Bucket(u8),
}

#[derive(Clone)]
struct Interp {
    divs: Vec<u8>,
    /// actor's account vault balances of the run's fungibles and ids of the NF resource
    vault_f: Vec<i128>,
    vault_n: BTreeSet<u64>,
    /// locks on the account vaults: fungible res -> multiset of locked amounts; nf -> id -> count
    lock_f: Vec<Vec<i128>>,
    lock_n: BTreeMap<u64, u32>,
    worktop_f: Vec<i128>,
    worktop_n: BTreeSet<u64>,
    buckets: Vec<Option<Bucket>>,
    proofs: Vec<Option<PSrc>>,
    authzone: Vec<PSrc>,
    /// deposits made to other parties: (party, res or NF) -> amount / ids
    dep_f: BTreeMap<(u8, u8), i128>,
    dep_n: BTreeMap<u8, BTreeSet<u64>>,
    burned_f: Vec<i128>,
    burned_n: BTreeSet<u64>,
    lifecycle_invalid: bool,
    /// DROP_ALL_PROOFS / DROP_AUTH_ZONE_PROOFS also drop the signature proofs of the transaction:
    /// afterwards every call that needs the actor's authority is unauthorized
    no_signature: bool,
}

impl Interp {
    fn max_lock(&self, res: usize) -> i128 {
        self.lock_f[res].iter().copied().max().unwrap_or(0)
    }
    fn drop_proof_src(&mut self, src: &PSrc) {
        match src {
            PSrc::Vault(r, a) => {
                if let Some(ix) = self.lock_f[*r as usize].iter().position(|x| x == a) {
                    self.lock_f[*r as usize].remove(ix);
                }
            }
            PSrc::VaultIds(ids) => {
                for i in ids {
                    if let Some(c) = self.lock_n.get_mut(i) {
                        *c -= 1;
                        if *c == 0 {
                            self.lock_n.remove(i);
                        }
                    }
                }
            }
            PSrc::Bucket(b) => {
                if let Some(Some(bk)) = self.buckets.get_mut(*b as usize) {
                    bk.proofs = bk.proofs.saturating_sub(1);
                }
            }
        }
    }

    /// Symbolic execution of one instruction.
    fn step(&mut self, pi: &PI, actor_is_owner: bool) -> Pred {
        let nf = self.divs.len();
        if self.no_signature
            && matches!(
                pi,
                PI::Withdraw { .. } | PI::WithdrawIds { .. } | PI::AcctProofAmount { .. } | PI::AcctProofIds { .. } | PI::BurnInAccount { .. } | PI::Burn { .. }
            )
        {
            if let PI::Burn { b } = pi {
                // the bucket id is consumed by the instruction even though the burn is refused
                if let Some(slot) = self.buckets.get_mut(*b as usize) {
                    *slot = None;
                }
            }
            return Pred::Fail;
        }
        match pi {
            PI::Withdraw { res, amount } => {
                let (Some(a), true) = (parse_attos(amount), (*res as usize) < nf) else { return Pred::Unknown };
                let r = *res as usize;
                if !divisible(a, self.divs[r]) {
                    return Pred::Fail;
                }
                if a > self.vault_f[r] - self.max_lock(r) {
                    return Pred::Fail;
                }
                self.vault_f[r] -= a;
                self.worktop_f[r] += a;
                Pred::Ok
            }
            PI::WithdrawIds { ids } => {
                let set: BTreeSet<u64> = ids.iter().copied().collect();
                if set.len() != ids.len() {
                    return Pred::Unknown;
                }
                if set.iter().any(|i| !self.vault_n.contains(i) || self.lock_n.contains_key(i)) {
                    return Pred::Fail;
                }
                for i in &set {
                    self.vault_n.remove(i);
                    self.worktop_n.insert(*i);
                }
                Pred::Ok
            }
            PI::Take { res, amount } => {
                let (Some(a), true) = (parse_attos(amount), (*res as usize) < nf) else { return Pred::Unknown };
                let r = *res as usize;
                if !divisible(a, self.divs[r]) || a > self.worktop_f[r] {
                    // (an ill-divisible or too large take fails; the bucket id is still not created)
                    return Pred::Fail;
                }
                self.worktop_f[r] -= a;
                self.buckets.push(Some(Bucket { hold: Hold::F(*res, a), proofs: 0 }));
                Pred::Ok
            }
            PI::TakeAll { res } => {
                if (*res as usize) >= nf {
                    return Pred::Unknown;
                }
                let r = *res as usize;
                let a = self.worktop_f[r];
                self.worktop_f[r] = 0;
                self.buckets.push(Some(Bucket { hold: Hold::F(*res, a), proofs: 0 }));
                Pred::Ok
            }
            PI::TakeIds { ids } => {
                let set: BTreeSet<u64> = ids.iter().copied().collect();
                if set.iter().any(|i| !self.worktop_n.contains(i)) {
                    return Pred::Fail;
                }
                for i in &set {
                    self.worktop_n.remove(i);
                }
                self.buckets.push(Some(Bucket { hold: Hold::N(set), proofs: 0 }));
                Pred::Ok
            }
            PI::TakeAllNf => {
                let set = std::mem::take(&mut self.worktop_n);
                self.buckets.push(Some(Bucket { hold: Hold::N(set), proofs: 0 }));
                Pred::Ok
            }
            PI::Return { b } => match self.buckets.get_mut(*b as usize) {
                Some(slot @ Some(_)) => {
                    let bk = slot.take().unwrap();
                    if bk.proofs > 0 {
                        self.lifecycle_invalid = true;
                        return Pred::Unknown;
                    }
                    match bk.hold {
                        Hold::F(r, a) => self.worktop_f[r as usize] += a,
                        Hold::N(ids) => self.worktop_n.extend(ids),
                    }
                    Pred::Ok
                }
                _ => {
                    self.lifecycle_invalid = true;
                    Pred::Fail
                }
            },
            PI::AssertAmount { res, amount } => {
                let (Some(a), true) = (parse_attos(amount), (*res as usize) < nf) else { return Pred::Unknown };
                if self.worktop_f[*res as usize] >= a {
                    Pred::Ok
                } else {
                    Pred::Fail
                }
            }
            PI::AssertAny { res } => {
                if (*res as usize) >= nf {
                    return Pred::Unknown;
                }
                if self.worktop_f[*res as usize] > 0 {
                    Pred::Ok
                } else {
                    Pred::Fail
                }
            }
            PI::AssertIds { ids } => {
                if ids.iter().all(|i| self.worktop_n.contains(i)) {
                    Pred::Ok
                } else {
                    Pred::Fail
                }
            }
            PI::Burn { b } => match self.buckets.get_mut(*b as usize) {
                Some(slot @ Some(_)) => {
                    let bk = slot.take().unwrap();
                    if bk.proofs > 0 {
                        self.lifecycle_invalid = true;
                        return Pred::Unknown;
                    }
                    if !actor_is_owner {
                        return Pred::Fail;
                    }
                    match bk.hold {
                        Hold::F(r, a) => self.burned_f[r as usize] += a,
                        Hold::N(ids) => self.burned_n.extend(ids),
                    }
                    Pred::Ok
                }
                _ => {
                    self.lifecycle_invalid = true;
                    Pred::Fail
                }
            },
            PI::Deposit { b, to } => match self.buckets.get_mut(*b as usize) {
                Some(slot @ Some(_)) => {
                    let bk = slot.take().unwrap();
                    if bk.proofs > 0 {
                        self.lifecycle_invalid = true;
                        return Pred::Unknown;
                    }
                    match bk.hold {
                        // a deposit to the actor goes straight back into the vault programs draw from
                        Hold::F(r, a) if *to == 0 => self.vault_f[r as usize] += a,
                        Hold::N(ids) if *to == 0 => self.vault_n.extend(ids),
                        Hold::F(r, a) => *self.dep_f.entry((*to, r)).or_default() += a,
                        Hold::N(ids) => self.dep_n.entry(*to).or_default().extend(ids),
                    }
                    Pred::Ok
                }
                _ => {
                    self.lifecycle_invalid = true;
                    Pred::Fail
                }
            },
            PI::DepositAll { to } => {
                for r in 0..nf {
                    let a = std::mem::take(&mut self.worktop_f[r]);
                    if a > 0 {
                        if *to == 0 {
                            self.vault_f[r] += a;
                        } else {
                            *self.dep_f.entry((*to, r as u8)).or_default() += a;
                        }
                    }
                }
                let ids = std::mem::take(&mut self.worktop_n);
                if !ids.is_empty() {
                    if *to == 0 {
                        self.vault_n.extend(ids);
                    } else {
                        self.dep_n.entry(*to).or_default().extend(ids);
                    }
                }
                Pred::Ok
            }
            PI::AcctProofAmount { res, amount } => {
                let (Some(a), true) = (parse_attos(amount), (*res as usize) < nf) else { return Pred::Unknown };
                let r = *res as usize;
                if a == 0 {
                    return Pred::Unknown;
                }
                if !divisible(a, self.divs[r]) || a > self.vault_f[r] {
                    return Pred::Fail;
                }
                self.lock_f[r].push(a);
                self.authzone.push(PSrc::Vault(*res, a));
                Pred::Ok
            }
            PI::AcctProofIds { ids } => {
                let set: BTreeSet<u64> = ids.iter().copied().collect();
                if set.is_empty() || set.len() != ids.len() {
                    return Pred::Unknown;
                }
                if set.iter().any(|i| !self.vault_n.contains(i)) {
                    return Pred::Fail;
                }
                for i in &set {
                    *self.lock_n.entry(*i).or_default() += 1;
                }
                self.authzone.push(PSrc::VaultIds(set));
                Pred::Ok
            }
            PI::BucketProofAmount { b, amount } => {
                let Some(a) = parse_attos(amount) else { return Pred::Unknown };
                match self.buckets.get_mut(*b as usize) {
                    Some(Some(bk)) => match &bk.hold {
                        Hold::F(r, have) => {
                            if a == 0 {
                                return Pred::Unknown;
                            }
                            if !divisible(a, self.divs[*r as usize]) || a > *have {
                                return Pred::Fail;
                            }
                            bk.proofs += 1;
                            self.proofs.push(Some(PSrc::Bucket(*b)));
                            Pred::Ok
                        }
                        Hold::N(_) => Pred::Unknown,
                    },
                    _ => {
                        self.lifecycle_invalid = true;
                        Pred::Fail
                    }
                }
            }
            PI::BucketProofAll { b } => match self.buckets.get_mut(*b as usize) {
                Some(Some(bk)) => {
                    let empty = match &bk.hold {
                        Hold::F(_, a) => *a == 0,
                        Hold::N(ids) => ids.is_empty(),
                    };
                    if empty {
                        return Pred::Unknown;
                    }
                    bk.proofs += 1;
                    self.proofs.push(Some(PSrc::Bucket(*b)));
                    Pred::Ok
                }
                _ => {
                    self.lifecycle_invalid = true;
                    Pred::Fail
                }
            },
            PI::Pop => match self.authzone.pop() {
                Some(src) => {
                    // popping moves the proof from the zone to a NEW named proof id
                    self.proofs.push(Some(src));
                    Pred::Ok
                }
                None => Pred::Fail,
            },
            PI::Push { p } => match self.proofs.get_mut(*p as usize) {
                Some(slot @ Some(_)) => {
                    // the named proof is consumed; the zone now holds it
                    let src = slot.take().unwrap();
                    self.authzone.push(src);
                    Pred::Ok
                }
                _ => {
                    self.lifecycle_invalid = true;
                    Pred::Fail
                }
            },
            PI::Clone { p } => match self.proofs.get(*p as usize).cloned() {
                Some(Some(src)) => {
                    match &src {
                        PSrc::Vault(r, a) => self.lock_f[*r as usize].push(*a),
                        PSrc::VaultIds(ids) => {
                            for i in ids {
                                *self.lock_n.entry(*i).or_default() += 1;
                            }
                        }
                        PSrc::Bucket(b) => {
                            if let Some(Some(bk)) = self.buckets.get_mut(*b as usize) {
                                bk.proofs += 1;
                            }
                        }
                    }
                    self.proofs.push(Some(src));
                    Pred::Ok
                }
                _ => {
                    self.lifecycle_invalid = true;
                    Pred::Fail
                }
            },
            PI::DropProof { p } => match self.proofs.get_mut(*p as usize) {
                Some(slot @ Some(_)) => {
                    let src = slot.take().unwrap();
                    self.drop_proof_src(&src);
                    Pred::Ok
                }
                _ => {
                    self.lifecycle_invalid = true;
                    Pred::Fail
                }
            },
            PI::DropAllProofs => {
                for i in 0..self.proofs.len() {
                    if let Some(src) = self.proofs[i].take() {
                        self.drop_proof_src(&src);
                    }
                }
                let zone = std::mem::take(&mut self.authzone);
                for src in zone {
                    self.drop_proof_src(&src);
                }
                self.no_signature = true;
                Pred::Ok
            }
            PI::DropAuthZoneProofs => {
                let zone = std::mem::take(&mut self.authzone);
                for src in zone {
                    self.drop_proof_src(&src);
                }
                self.no_signature = true;
                Pred::Ok
            }
            PI::BurnInAccount { res, amount } => {
                let (Some(a), true) = (parse_attos(amount), (*res as usize) < nf) else { return Pred::Unknown };
                let r = *res as usize;
                if !actor_is_owner {
                    return Pred::Fail;
                }
                if !divisible(a, self.divs[r]) || a > self.vault_f[r] - self.max_lock(r) {
                    return Pred::Fail;
                }
                self.vault_f[r] -= a;
                self.burned_f[r] += a;
                Pred::Ok
            }
        }
    }

    /// What must hold at the end for the transaction to succeed.
    fn end_ok(&self) -> Pred {
        if self.worktop_f.iter().any(|a| *a > 0) || !self.worktop_n.is_empty() {
            return Pred::Fail;
        }
        for b in self.buckets.iter().flatten() {
            let non_empty = match &b.hold {
                Hold::F(_, a) => *a > 0,
                Hold::N(ids) => !ids.is_empty(),
            };
            if non_empty {
                return Pred::Fail;
            }
        }
        // an EMPTY bucket that is never consumed: the property only speaks of non-empty ones
        if self.buckets.iter().flatten().count() > 0 {
            return Pred::Unknown;
        }
        Pred::Ok
    }
}

/// Static lifecycle of bucket / proof ids, independent of amounts (what C36 speaks about):
/// returns (misuse, dangling) where misuse = some instruction uses a bucket / proof id that was
/// never created, was already consumed, or consumes a bucket still locked by a proof; dangling =
/// a bucket is left unconsumed at the end.
fn static_lifecycle(instrs: &[PI]) -> (bool, bool) {
    // bucket: Some(lock count) while alive
    let mut buckets: Vec<Option<u32>> = vec![];
    // proof: Some(Some(bucket)) alive from bucket, Some(None) alive from elsewhere
    let mut proofs: Vec<Option<Option<usize>>> = vec![];
    let mut misuse = false;
    for pi in instrs {
        match pi {
            PI::Take { .. } | PI::TakeAll { .. } | PI::TakeIds { .. } | PI::TakeAllNf => buckets.push(Some(0)),
            PI::Return { b } | PI::Burn { b } | PI::Deposit { b, .. } => match buckets.get_mut(*b as usize) {
                Some(slot @ Some(_)) => {
                    if slot.unwrap() > 0 {
                        misuse = true;
                    }
                    *slot = None;
                }
                _ => misuse = true,
            },
            PI::BucketProofAmount { b, .. } | PI::BucketProofAll { b } => match buckets.get_mut(*b as usize) {
                Some(Some(l)) => {
                    *l += 1;
                    proofs.push(Some(Some(*b as usize)));
                }
                _ => {
                    misuse = true;
                    proofs.push(Some(None));
                }
            },
            PI::Pop => proofs.push(Some(None)),
            PI::Push { p } | PI::DropProof { p } => match proofs.get_mut(*p as usize) {
                Some(slot @ Some(_)) => {
                    if let Some(Some(b)) = slot.take() {
                        if matches!(pi, PI::Push { .. }) {
                            // a bucket-backed proof moved into the auth zone: whether the bucket counts
                            // as locked afterwards is not something the property fixes - no verdict
                            return (false, false);
                        }
                        if let Some(Some(l)) = buckets.get_mut(b) {
                            *l = l.saturating_sub(1);
                        }
                    }
                }
                _ => misuse = true,
            },
            PI::Clone { p } => match proofs.get(*p as usize).cloned() {
                Some(Some(src)) => {
                    if let Some(b) = src {
                        if let Some(Some(l)) = buckets.get_mut(b) {
                            *l += 1;
                        }
                    }
                    proofs.push(Some(src));
                }
                _ => {
                    misuse = true;
                    proofs.push(Some(None));
                }
            },
            PI::DropAllProofs => {
                for p in proofs.iter_mut() {
                    *p = None;
                }
                for b in buckets.iter_mut().flatten() {
                    *b = 0;
                }
            }
            _ => {}
        }
    }
    (misuse, buckets.iter().any(|b| b.is_some()))
}

struct World9 {
    fres: Vec<ResourceAddress>,
    divs: Vec<u8>,
    nres: Option<ResourceAddress>,
}

/// Translates a symbolic program into a raw V1 manifest (explicit bucket / proof ids).
fn to_manifest(instrs: &[PI], w: &World9, view: &View, actor: usize) -> Option<TransactionManifestV1> {
    to_manifest_with_fee(instrs, w, view, actor, false)
}

/// `own_fee`: lock the fee on the actor's account instead of the faucet component (a call into a
/// non-native component makes the static analyser assume unknown resources on the worktop).
fn to_manifest_with_fee(instrs: &[PI], w: &World9, view: &View, actor: usize, own_fee: bool) -> Option<TransactionManifestV1> {
    let acct = view.parties[actor].account;
    let mut v: Vec<InstructionV1> = vec![];
    let call = |addr: ComponentAddress, method: &str, args: ManifestValue| -> InstructionV1 {
        InstructionV1::CallMethod(CallMethod { address: addr.into(), method_name: method.to_string(), args })
    };
    if own_fee {
        v.push(call(acct, "lock_fee", manifest_args!(dec!(100)).into()));
    } else {
        v.push(call(FAUCET, "lock_fee", manifest_args!(dec!(5000)).into()));
    }
    let ids_of = |ids: &Vec<u64>| -> Vec<NonFungibleLocalId> { ids.iter().map(|i| NonFungibleLocalId::integer(*i)).collect() };
    for pi in instrs {
        let d = |s: &String| Decimal::try_from(s.as_str()).ok();
        let ins = match pi {
            PI::Withdraw { res, amount } => call(acct, "withdraw", manifest_args!(*w.fres.get(*res as usize)?, d(amount)?).into()),
            PI::WithdrawIds { ids } => call(acct, "withdraw_non_fungibles", manifest_args!(w.nres?, ids_of(ids)).into()),
            PI::Take { res, amount } => InstructionV1::TakeFromWorktop(TakeFromWorktop { resource_address: *w.fres.get(*res as usize)?, amount: d(amount)? }),
            PI::TakeAll { res } => InstructionV1::TakeAllFromWorktop(TakeAllFromWorktop { resource_address: *w.fres.get(*res as usize)? }),
            PI::TakeIds { ids } => InstructionV1::TakeNonFungiblesFromWorktop(TakeNonFungiblesFromWorktop { resource_address: w.nres?, ids: ids_of(ids) }),
            PI::TakeAllNf => InstructionV1::TakeAllFromWorktop(TakeAllFromWorktop { resource_address: w.nres? }),
            PI::Return { b } => InstructionV1::ReturnToWorktop(ReturnToWorktop { bucket_id: ManifestBucket(*b as u32) }),
            PI::AssertAmount { res, amount } => InstructionV1::AssertWorktopContains(AssertWorktopContains { resource_address: *w.fres.get(*res as usize)?, amount: d(amount)? }),
            PI::AssertAny { res } => InstructionV1::AssertWorktopContainsAny(AssertWorktopContainsAny { resource_address: *w.fres.get(*res as usize)? }),
            PI::AssertIds { ids } => InstructionV1::AssertWorktopContainsNonFungibles(AssertWorktopContainsNonFungibles { resource_address: w.nres?, ids: ids_of(ids) }),
            PI::Burn { b } => InstructionV1::BurnResource(BurnResource { bucket_id: ManifestBucket(*b as u32) }),
            PI::Deposit { b, to } => call(view.parties.get(*to as usize)?.account, "try_deposit_or_abort", manifest_args!(ManifestBucket(*b as u32), Option::<ResourceOrNonFungible>::None).into()),
            PI::DepositAll { to } => call(view.parties.get(*to as usize)?.account, "try_deposit_batch_or_abort", manifest_args!(ManifestExpression::EntireWorktop, Option::<ResourceOrNonFungible>::None).into()),
            PI::AcctProofAmount { res, amount } => call(acct, "create_proof_of_amount", manifest_args!(*w.fres.get(*res as usize)?, d(amount)?).into()),
            PI::AcctProofIds { ids } => call(acct, "create_proof_of_non_fungibles", manifest_args!(w.nres?, ids_of(ids)).into()),
            PI::BucketProofAmount { b, amount } => InstructionV1::CreateProofFromBucketOfAmount(CreateProofFromBucketOfAmount { bucket_id: ManifestBucket(*b as u32), amount: d(amount)? }),
            PI::BucketProofAll { b } => InstructionV1::CreateProofFromBucketOfAll(CreateProofFromBucketOfAll { bucket_id: ManifestBucket(*b as u32) }),
            PI::Pop => InstructionV1::PopFromAuthZone(PopFromAuthZone),
            PI::Push { p } => InstructionV1::PushToAuthZone(PushToAuthZone { proof_id: ManifestProof(*p as u32) }),
            PI::Clone { p } => InstructionV1::CloneProof(CloneProof { proof_id: ManifestProof(*p as u32) }),
            PI::DropProof { p } => InstructionV1::DropProof(DropProof { proof_id: ManifestProof(*p as u32) }),
            PI::DropAllProofs => InstructionV1::DropAllProofs(DropAllProofs),
            PI::DropAuthZoneProofs => InstructionV1::DropAuthZoneProofs(DropAuthZoneProofs),
            PI::BurnInAccount { res, amount } => call(acct, "burn", manifest_args!(*w.fres.get(*res as usize)?, d(amount)?).into()),
        };
        v.push(ins);
    }
    Some(TransactionManifestV1 { instructions: v, blobs: Default::default(), object_names: Default::default() })
}

fn gen_program(rng: &mut Rng, cfg: &Cfg, it: &Interp, n_ids: u8) -> Vec<PI> {
    // generation follows a scratch interpreter so that most programs are meaningful
    let mut sim = Interp {
        divs: it.divs.clone(),
        vault_f: it.vault_f.clone(),
        vault_n: it.vault_n.clone(),
        lock_f: vec![vec![]; it.divs.len()],
        lock_n: BTreeMap::new(),
        worktop_f: vec![0; it.divs.len()],
        worktop_n: BTreeSet::new(),
        buckets: vec![],
        proofs: vec![],
        authzone: vec![],
        dep_f: BTreeMap::new(),
        dep_n: BTreeMap::new(),
        burned_f: vec![0; it.divs.len()],
        burned_n: BTreeSet::new(),
        lifecycle_invalid: false,
        no_signature: false,
    };
    let nf = sim.divs.len() as u64;
    let len = rng.range(2, cfg.max_len as u64) as usize;
    let mut out = vec![];
    let invalid = rng.below(1000) < cfg.invalid_permille as u64;
    let amt = |rng: &mut Rng, avail: i128, div: u8| -> String {
        let unit = 10i128.pow(18 - div.min(18) as u32);
        let a = match rng.below(12) {
            0..=2 => avail,
            3..=5 => avail / *rng.pick(&[2i128, 3, 10]),
            6 => unit,
            7 => avail + unit,
            8 => (avail - unit).max(0),
            9 => 0,
            10 => avail / 7 + 1, // usually not divisible for coarse divisibilities
            _ => avail / (rng.range(2, 9) as i128),
        };
        let a = if rng.chance(9, 10) { a - a.rem_euclid(unit) } else { a };
        fmt_attos(a.max(0))
    };
    for _ in 0..len {
        let r = rng.below(nf.max(1)) as u8;
        let div = sim.divs.get(r as usize).copied().unwrap_or(18);
        let live_b: Vec<u8> = (0..sim.buckets.len() as u8).filter(|i| sim.buckets[*i as usize].is_some()).collect();
        let any_b = |rng: &mut Rng, sim: &Interp| -> u8 {
            if invalid && rng.chance(1, 4) {
                rng.below(sim.buckets.len() as u64 + 2) as u8
            } else if !live_b.is_empty() {
                *rng.pick(&live_b)
            } else {
                rng.below(sim.buckets.len() as u64 + 1) as u8
            }
        };
        let live_p: Vec<u8> = (0..sim.proofs.len() as u8).filter(|i| sim.proofs[*i as usize].is_some()).collect();
        let any_p = |rng: &mut Rng, sim: &Interp| -> u8 {
            if invalid && rng.chance(1, 4) {
                rng.below(sim.proofs.len() as u64 + 2) as u8
            } else if !live_p.is_empty() {
                *rng.pick(&live_p)
            } else {
                rng.below(sim.proofs.len() as u64 + 1) as u8
            }
        };
        let ids = |rng: &mut Rng, pool: &BTreeSet<u64>| -> Vec<u64> {
            let mut v: Vec<u64> = pool.iter().copied().filter(|_| rng.chance(1, 2)).take(3).collect();
            if v.is_empty() {
                v.push(rng.range(1, n_ids.max(1) as u64 + 1));
            }
            v
        };
        let pi = match rng.below(30) {
            0..=4 => PI::Withdraw { res: r, amount: amt(rng, sim.vault_f[r as usize] - sim.max_lock(r as usize), div) },
            5 => PI::WithdrawIds { ids: ids(rng, &sim.vault_n.clone()) },
            6..=8 => PI::Take { res: r, amount: amt(rng, sim.worktop_f[r as usize], div) },
            9 => PI::TakeAll { res: r },
            10 => PI::TakeIds { ids: ids(rng, &sim.worktop_n.clone()) },
            11 => PI::TakeAllNf,
            12..=13 => PI::Return { b: any_b(rng, &sim) },
            14 => PI::AssertAmount { res: r, amount: amt(rng, sim.worktop_f[r as usize], div) },
            15 => {
                if rng.chance(1, 2) {
                    PI::AssertAny { res: r }
                } else {
                    PI::AssertIds { ids: ids(rng, &sim.worktop_n.clone()) }
                }
            }
            16 => PI::Burn { b: any_b(rng, &sim) },
            17..=18 => PI::Deposit { b: any_b(rng, &sim), to: rng.below(N_PARTIES as u64) as u8 },
            19 => PI::DepositAll { to: rng.below(N_PARTIES as u64) as u8 },
            20..=22 => PI::AcctProofAmount { res: r, amount: amt(rng, sim.vault_f[r as usize], div) },
            23 => PI::AcctProofIds { ids: ids(rng, &sim.vault_n.clone()) },
            24 => {
                if rng.chance(1, 2) {
                    PI::BucketProofAmount { b: any_b(rng, &sim), amount: amt(rng, sim.worktop_f[r as usize].max(ONE), div) }
                } else {
                    PI::BucketProofAll { b: any_b(rng, &sim) }
                }
            }
            25 => PI::Pop,
            26 => {
                if rng.chance(1, 2) {
                    PI::Clone { p: any_p(rng, &sim) }
                } else {
                    PI::Push { p: any_p(rng, &sim) }
                }
            }
            27 => PI::DropProof { p: any_p(rng, &sim) },
            28 => {
                if rng.chance(1, 2) {
                    PI::DropAllProofs
                } else {
                    PI::DropAuthZoneProofs
                }
            }
            _ => PI::BurnInAccount { res: r, amount: amt(rng, sim.vault_f[r as usize] - sim.max_lock(r as usize), div) },
        };
        // keep most programs alive: an instruction predicted to fail is usually re-drawn
        let mut trial = sim.clone();
        let p = trial.step(&pi, true);
        if p == Pred::Fail && !invalid && rng.chance(5, 6) {
            continue;
        }
        sim = trial;
        out.push(pi);
    }
    // most programs end tidy: everything left goes back to the actor
    if rng.chance(4, 5) {
        for (i, b) in sim.buckets.iter().enumerate() {
            if b.is_some() && rng.chance(9, 10) {
                out.push(PI::Return { b: i as u8 });
            }
        }
        out.push(PI::DepositAll { to: 0 });
    }
    out
}

impl World for Programs {
    type Step = Step;
    type Cfg = Cfg;
    fn property(&self) -> &'static str {
        self.id
    }
    fn world(&self) -> &'static str {
        "ledger"
    }
    fn rule(&self) -> String {
        let common = "Per run: party 0 creates 1-3 fungible resources of random divisibility and one integer-id non-fungible resource; then generated programs of raw worktop / bucket / proof instructions (withdraw, take by amount / ids / all, return, assert amount / any / ids, burn, deposit of a bucket / of the worktop, account-vault proofs of amount / ids, bucket proofs, pop / push / clone / drop / drop-all, burn in account) with boundary amounts (equal to the balance, one unit off, zero, ill-divisible), optional invalid lifecycles (unknown / consumed bucket or proof ids) and optionally an injected system error (F5), are interpreted symbolically (integers of attos, id sets, max-of-locks per vault) and executed by the real engine. ";
        let specific = match self.id {
            "C09" => "C09: success <=> every take satisfiable, every assertion true, nothing left on the worktop, no non-empty bucket left, nothing used after being consumed (asserted when no instruction of unknown semantics precedes the deciding one); on success every account's vault change equals the interpreter's (a take never yields more than was put).",
            "C10" => "C10: a withdraw / burn of y from an account vault succeeds iff y <= balance - max(live locks) and y respects divisibility, overlapping proofs lock the max not the sum, proofs of more than the balance fail; after the transaction (success or failure) a follow-up transaction withdrawing the full balance must succeed (all locks released) and the stored balance equals the model's.",
            "C38" => "C38: every generated manifest that static validation accepts is also run through StaticResourceMovementsVisitor; when the analysis succeeds and the execution succeeds, what each account actually withdrew and deposited per resource (summed from the accounts' own WithdrawEvent / DepositEvent in the receipt; non-fungibles by count) is compared with the analysis: withdrawals must equal the reported (exact) withdrawals, deposits must lie within the summed per-deposit bounds (exact / at most / at least / between / unknown; a resource not mentioned by any deposit of an account without unspecified resources must not be deposited there).",
            _ => "C36: every generated manifest goes through StaticManifestInterpreter with all rules: a manifest whose symbolic lifecycle uses an unknown or consumed bucket / proof, consumes a bucket locked by a proof, or leaves buckets dangling must be rejected; an accepted manifest must never fail at run time with BucketNotFound / ProofNotFound.",
        };
        format!("{}{} evaluations = engine executions + static validations; distinct = distinct (program digest, outcome).", common, specific)
    }
    fn assumptions(&self) -> Vec<String> {
        vec![
            "Where the documentation is silent (zero-amount proofs, consuming a bucket that still backs a proof, duplicate ids in one request) the interpreter answers Unknown and no verdict is asserted for that transaction beyond conservation.".into(),
            "Only V1 manifests are generated.".into(),
        ]
    }
    fn real_vs_stub(&self) -> serde_json::Value {
        json!({"real": ["transaction processor", "worktop, bucket, proof, vault, account, resource manager blueprints", "StaticManifestInterpreter (C36)", "engine"],
               "stub_or_ours": ["program generator", "symbolic worktop/bucket/proof interpreter"]})
    }
    fn probes(&self) -> Vec<&'static str> {
        if self.id == "C38" {
            return vec!["analysis.accepted", "analysis.compared_with_execution", "analysis.withdraw_checked", "analysis.bounded_deposit_checked", "analysis.unbounded_deposit", "static.accepted", "fault.inject_costing_error_fired"];
        }
        // (verdict probes belong to C09 / C10, the follow-up withdrawal to C10 only)
        let mut v = vec!["probe.withdraw_blocked_by_live_proof", "probe.overlapping_proofs", "probe.take_exactly_worktop_balance", "static.rejected", "static.accepted", "static.lifecycle_invalid_generated", "fault.inject_costing_error_fired"];
        if self.id != "C36" {
            v.extend(["program.success_predicted_and_observed", "program.failure_predicted_and_observed", "program.no_verdict_unknown_semantics"]);
        }
        if self.id == "C10" {
            v.push("probe.followup_full_withdraw");
        }
        v
    }
    fn budget(&self, tier: Tier) -> (u64, u64) {
        match tier {
            Tier::Quick => (2500, 45),
            Tier::Thorough => (30_000, 900),
        }
    }
    fn gen_cfg(&self, rng: &mut Rng, _tier: Tier, _run: u64) -> Cfg {
        Cfg {
            n_programs: rng.range(5, 40) as usize,
            max_len: *rng.pick(&[4usize, 8, 14]),
            invalid_permille: if self.id == "C36" { 500 } else { *rng.pick(&[0u32, 100]) },
            fault_permille: *rng.pick(&[0u32, 0, 100]),
        }
    }

    fn run(&self, cfg: &Cfg, mode: Mode<Step>) -> RunOutcome<Step> {
        let mut steps = Steps::new(mode);
        let mut stats = Stats::default();
        let mut node = Node::from_base();
        let view = View::new();
        let mut w = World9 { fres: vec![], divs: vec![], nres: None };
        let mut n_ids = 0u8;
        let mut digest = 0u64;
        let mut violation = None;
        let mut n = 0usize;
        let proof0 = view.parties[0].proof.clone();
        // fund party 0
        {
            let m = ManifestBuilder::new().lock_fee_from_faucet().get_free_xrd_from_faucet().try_deposit_entire_worktop_or_abort(view.parties[0].account, None).build();
            let nonce = node.next_nonce();
            if let Ok(exe) = TxSpec::new(m, nonce, btreeset![]).build(&node.validator) {
                if let Ok(r) = node.execute(&exe, &ExecOpts::default()) {
                    node.commit(&r);
                }
            }
        }
        loop {
            // a scratch interpreter for the generator (actual vault state)
            let cur = |node: &Node, w: &World9| -> Interp {
                let acct = view.parties[0].account;
                let to_attos = |d: Decimal| -> i128 { parse_attos(&d.to_string()).unwrap_or(0) };
                let vault_n: BTreeSet<u64> = match w.nres.and_then(|r| account_vault(&node.db, acct, r)) {
                    Some(v) => {
                        use radix_substate_store_interface::db_key_mapper::*;
                        use radix_substate_store_interface::interface::*;
                        let part = MAIN_BASE_PARTITION.at_offset(PartitionOffset(1)).unwrap();
                        node.db
                            .list_raw_values(&v, part, None::<SubstateKey>)
                            .filter_map(|(k, _)| match SpreadPrefixKeyMapper::from_db_sort_key::<MapKey>(&k) {
                                SubstateKey::Map(kb) => scrypto_decode::<NonFungibleLocalId>(&kb).ok(),
                                _ => None,
                            })
                            .filter_map(|id| match id {
                                NonFungibleLocalId::Integer(i) => Some(i.value()),
                                _ => None,
                            })
                            .collect()
                    }
                    None => BTreeSet::new(),
                };
                Interp {
                    divs: w.divs.clone(),
                    vault_f: w.fres.iter().map(|r| to_attos(balance(node, acct, *r))).collect(),
                    vault_n,
                    lock_f: vec![vec![]; w.divs.len()],
                    lock_n: BTreeMap::new(),
                    worktop_f: vec![0; w.divs.len()],
                    worktop_n: BTreeSet::new(),
                    buckets: vec![],
                    proofs: vec![],
                    authzone: vec![],
                    dep_f: BTreeMap::new(),
                    dep_n: BTreeMap::new(),
                    burned_f: vec![0; w.divs.len()],
                    burned_n: BTreeSet::new(),
                    lifecycle_invalid: false,
        no_signature: false,
                }
            };
            let step = steps.next(|rng| {
                if n > cfg.n_programs {
                    return None;
                }
                if n == 0 {
                    let k = rng.range(1, 3) as usize;
                    return Some(Step::Setup { divisibilities: (0..k).map(|_| *rng.pick(&[0u8, 1, 2, 6, 18, 18])).collect(), n_ids: rng.range(2, 6) as u8 });
                }
                let it = cur(&node, &w);
                Some(Step::Program {
                    instrs: gen_program(rng, cfg, &it, n_ids),
                    fault_at: if rng.below(1000) < cfg.fault_permille as u64 { Some(rng.range(1, 4000)) } else { None },
                })
            });
            n += 1;
            let Some(step) = step else { break };
            let ix = steps.index();
            let ours = |m: &str| m.starts_with(&format!("{}.", self.id.to_lowercase()));
            let mk = |monitor: &str, detail: String| Violation { monitor: monitor.into(), step: ix, detail, signature: monitor.into() };
            match step {
                Step::Setup { divisibilities, n_ids: k } => {
                    if !w.fres.is_empty() {
                        continue;
                    }
                    let r = rule!(require(proof0.clone()));
                    for d in &divisibilities {
                        let roles = FungibleResourceRoles {
                            mint_roles: mint_roles! { minter => r.clone(); minter_updater => rule!(deny_all); },
                            burn_roles: burn_roles! { burner => r.clone(); burner_updater => rule!(deny_all); },
                            ..Default::default()
                        };
                        let m = ManifestBuilder::new()
                            .lock_fee_from_faucet()
                            .create_fungible_resource(OwnerRole::Fixed(r.clone()), true, *d, roles, metadata!(), Some(dec!(1000)))
                            .try_deposit_entire_worktop_or_abort(view.parties[0].account, None)
                            .build();
                        let nonce = node.next_nonce();
                        let Ok(exe) = TxSpec::new(m, nonce, btreeset![proof0.clone()]).build(&node.validator) else { continue };
                        let Ok(rc) = node.execute(&exe, &ExecOpts::default()) else { continue };
                        if let TransactionResult::Commit(c) = &rc.result {
                            if let Some(a) = c.new_resource_addresses().first() {
                                w.fres.push(*a);
                                w.divs.push(*d);
                            }
                        }
                        node.commit(&rc);
                    }
                    let roles = NonFungibleResourceRoles {
                        mint_roles: mint_roles! { minter => r.clone(); minter_updater => rule!(deny_all); },
                        burn_roles: burn_roles! { burner => r.clone(); burner_updater => rule!(deny_all); },
                        ..Default::default()
                    };
                    let entries: Vec<(NonFungibleLocalId, ())> = (1..=k as u64).map(|i| (NonFungibleLocalId::integer(i), ())).collect();
                    let m = ManifestBuilder::new()
                        .lock_fee_from_faucet()
                        .create_non_fungible_resource(OwnerRole::Fixed(r.clone()), NonFungibleIdType::Integer, true, roles, metadata!(), Some(entries))
                        .try_deposit_entire_worktop_or_abort(view.parties[0].account, None)
                        .build();
                    let nonce = node.next_nonce();
                    if let Ok(exe) = TxSpec::new(m, nonce, btreeset![proof0.clone()]).build(&node.validator) {
                        if let Ok(rc) = node.execute(&exe, &ExecOpts::default()) {
                            if let TransactionResult::Commit(c) = &rc.result {
                                w.nres = c.new_resource_addresses().first().copied();
                            }
                            node.commit(&rc);
                        }
                    }
                    n_ids = k;
                }
                Step::Program { instrs, fault_at } => {
                    if w.fres.is_empty() {
                        continue;
                    }
                    // C38: half of the programs pay from the own account so that the analyser's bounds are tight
                    let own_fee = self.id == "C38" && instrs.len() % 2 == 0;
                    let Some(manifest) = to_manifest_with_fee(&instrs, &w, &view, 0, own_fee) else {
                        stats.bump("program.untranslatable");
                        continue;
                    };
                    // symbolic interpretation
                    let mut it = cur(&node, &w);
                    let start_vault_f = it.vault_f.clone();
                    let mut verdict = Pred::Ok; // Ok = must succeed so far, Fail = must fail, Unknown = no verdict
                    let mut blocked_by_proof = false;
                    for pi in &instrs {
                        if let PI::Withdraw { res, amount } = pi {
                            if let (Some(a), true) = (parse_attos(amount), (*res as usize) < it.divs.len()) {
                                let r = *res as usize;
                                if a <= it.vault_f[r] && a > it.vault_f[r] - it.max_lock(r) {
                                    blocked_by_proof = true;
                                }
                            }
                        }
                        if let PI::Take { res, amount } = pi {
                            if let Some(a) = parse_attos(amount) {
                                if (*res as usize) < it.divs.len() && a > 0 && a == it.worktop_f[*res as usize] {
                                    stats.bump("probe.take_exactly_worktop_balance");
                                }
                            }
                        }
                        let p = it.step(pi, true);
                        if it.lock_f.iter().any(|l| l.len() > 1) {
                            stats.bump("probe.overlapping_proofs");
                        }
                        match (verdict, p) {
                            (Pred::Ok, Pred::Fail) => {
                                verdict = Pred::Fail;
                                break;
                            }
                            (Pred::Ok, Pred::Unknown) => {
                                verdict = Pred::Unknown;
                                break;
                            }
                            _ => {}
                        }
                    }
                    if verdict == Pred::Ok {
                        verdict = it.end_ok();
                    }
                    if blocked_by_proof {
                        stats.bump("probe.withdraw_blocked_by_live_proof");
                    }
                    if it.lifecycle_invalid {
                        stats.bump("static.lifecycle_invalid_generated");
                    }
                    // C36: static validation
                    stats.evaluations += 1;
                    let static_res = catch_quiet(|| StaticManifestInterpreter::new(ValidationRuleset::all(), &manifest).validate());
                    let accepted = match static_res {
                        Err(p) => {
                            let v = mk("c36.static_validator_panicked", p);
                            if ours(&v.monitor) {
                                violation = Some(v);
                            }
                            break;
                        }
                        Ok(r) => r.is_ok(),
                    };
                    stats.bump(if accepted { "static.accepted" } else { "static.rejected" });
                    // static lifecycle of ids (independent of amounts)
                    let (misuse, dangling) = static_lifecycle(&instrs);
                    if misuse || dangling {
                        stats.bump("static.lifecycle_invalid_generated");
                    }
                    if self.id == "C36" && accepted && (misuse || dangling) {
                        violation = Some(mk(
                            "c36.invalid_lifecycle_accepted",
                            format!("static validation accepted a manifest that {} : {:?}", if misuse { "uses an unknown / consumed / proof-locked bucket or proof" } else { "leaves a bucket dangling" }, instrs),
                        ));
                        break;
                    }
                    // C38: the static resource movement analysis of the same manifest
                    let analysis = if self.id == "C38" && accepted {
                        match catch_quiet(|| {
                            let mut visitor = StaticResourceMovementsVisitor::new(false);
                            StaticManifestInterpreter::new(ValidationRuleset::all(), &manifest).validate_and_apply_visitor(&mut visitor).ok().map(|_| visitor.output())
                        }) {
                            Ok(a) => a,
                            Err(p) => {
                                violation = Some(mk("c38.analyser_panicked", format!("{:?}: {}", instrs, p)));
                                break;
                            }
                        }
                    } else {
                        None
                    };
                    if self.id == "C38" {
                        stats.bump(if analysis.is_some() { "analysis.accepted" } else { "analysis.rejected_or_not_run" });
                    }
                    // execute
                    let nonce = node.next_nonce();
                    let Ok(exe) = TxSpec::new(manifest, nonce, btreeset![proof0.clone()]).build(&node.validator) else {
                        stats.bump("program.unpreparable");
                        continue;
                    };
                    let mut o = ExecOpts::default();
                    o.inject_at = fault_at;
                    stats.evaluations += 1;
                    let rc = match node.execute(&exe, &o) {
                        Ok(r) => r,
                        Err(_) => {
                            stats.bump("note.other_property.c11.engine_panicked");
                            break;
                        }
                    };
                    let injected = fault_at.is_some() && super::injection_fired(&rc);
                    if injected {
                        stats.bump("fault.inject_costing_error_fired");
                    }
                    let success = matches!(&rc.result, TransactionResult::Commit(c) if matches!(c.outcome, TransactionOutcome::Success(_)));
                    let err_text = match &rc.result {
                        TransactionResult::Commit(c) => match &c.outcome {
                            TransactionOutcome::Failure(e) => format!("{:?}", e),
                            _ => String::new(),
                        },
                        TransactionResult::Reject(r) => format!("{:?}", r.reason),
                        _ => String::new(),
                    };
                    stats.distinct.insert(prng::mix(prng::fnv64(format!("{:?}", instrs).as_bytes()), success as u64));
                    if self.id == "C36" && accepted && (err_text.contains("BucketNotFound") || err_text.contains("ProofNotFound")) {
                        violation = Some(mk("c36.accepted_manifest_fails_on_unknown_id", format!("{:?} -> {}", instrs, &err_text[..err_text.len().min(300)])));
                        break;
                    }
                    let _ = RuntimeError::SystemError;
                    if matches!(self.id, "C09" | "C10") && !injected && fault_at.is_none() {
                        match verdict {
                            Pred::Ok => {
                                if !success {
                                    violation = Some(mk(
                                        &format!("{}.predicted_success_but_failed", self.id.to_lowercase()),
                                        format!("program {:?} (vault balances {:?}, divisibilities {:?}) must succeed but: {}", instrs, start_vault_f, it.divs, &err_text[..err_text.len().min(400)]),
                                    ));
                                    break;
                                }
                                stats.bump("program.success_predicted_and_observed");
                            }
                            Pred::Fail => {
                                if success {
                                    violation = Some(mk(
                                        &format!("{}.predicted_failure_but_succeeded", self.id.to_lowercase()),
                                        format!("program {:?} (vault balances {:?}, divisibilities {:?}) must fail (unsatisfiable take / false assertion / leftover / use after consume / withdrawal under a live proof) but succeeded", instrs, start_vault_f, it.divs),
                                    ));
                                    break;
                                }
                                stats.bump("program.failure_predicted_and_observed");
                            }
                            Pred::Unknown => stats.bump("program.no_verdict_unknown_semantics"),
                        }
                    }
                    node.commit(&rc);
                    // C38: what the accounts actually deposited / withdrew (their own events) lies within the analyser's bounds
                    if let (true, Some(out), TransactionResult::Commit(c)) = (success && self.id == "C38", &analysis, &rc.result) {
                        use radix_engine::blueprints::account::{DepositEvent, WithdrawEvent};
                        let mut dep: BTreeMap<(ComponentAddress, ResourceAddress), Decimal> = BTreeMap::new();
                        let mut wd: BTreeMap<(ComponentAddress, ResourceAddress), Decimal> = BTreeMap::new();
                        for (EventTypeIdentifier(emitter, name), payload) in &c.application_events {
                            let Emitter::Method(n, ModuleId::Main) = emitter else { continue };
                            let Ok(acct) = ComponentAddress::try_from(n.0.as_slice()) else { continue };
                            if !view.parties.iter().any(|p| p.account == acct) {
                                continue;
                            }
                            match name.as_str() {
                                "DepositEvent" => match scrypto_decode::<DepositEvent>(payload) {
                                    Ok(DepositEvent::Fungible(r, a)) => *dep.entry((acct, r)).or_default() += a,
                                    Ok(DepositEvent::NonFungible(r, ids)) => *dep.entry((acct, r)).or_default() += Decimal::from(ids.len()),
                                    _ => {}
                                },
                                "WithdrawEvent" => match scrypto_decode::<WithdrawEvent>(payload) {
                                    Ok(WithdrawEvent::Fungible(r, a)) => *wd.entry((acct, r)).or_default() += a,
                                    Ok(WithdrawEvent::NonFungible(r, ids)) => *wd.entry((acct, r)).or_default() += Decimal::from(ids.len()),
                                    _ => {}
                                },
                                _ => {}
                            }
                        }
                        // predicted withdrawals (exact) and deposits (bounds) per account and resource
                        let mut pwd: BTreeMap<(ComponentAddress, ResourceAddress), Decimal> = BTreeMap::new();
                        for (acct, ws) in out.resolve_account_withdraws() {
                            for w in ws {
                                match w {
                                    AccountWithdraw::Amount(r, a) => *pwd.entry((acct, r)).or_default() += a,
                                    AccountWithdraw::Ids(r, ids) => *pwd.entry((acct, r)).or_default() += Decimal::from(ids.len()),
                                }
                            }
                        }
                        // (lower, upper or None = unbounded)
                        let mut pdep: BTreeMap<(ComponentAddress, ResourceAddress), (Decimal, Option<Decimal>)> = BTreeMap::new();
                        let mut unspecified: BTreeSet<ComponentAddress> = BTreeSet::new();
                        let all_res: Vec<ResourceAddress> = w.fres.iter().copied().chain(w.nres).collect();
                        for (acct, ds) in out.resolve_account_deposits() {
                            for d in ds {
                                if d.unspecified_resources().may_be_present() {
                                    unspecified.insert(acct);
                                }
                                for r in &all_res {
                                    let (lo, hi) = match d.specified_resources().get(r) {
                                        None => (Decimal::ZERO, if d.unspecified_resources().may_be_present() { None } else { Some(Decimal::ZERO) }),
                                        Some(SimpleResourceBounds::Fungible(b)) => match b {
                                            SimpleFungibleResourceBounds::Exact(x) => (*x, Some(*x)),
                                            SimpleFungibleResourceBounds::AtMost(x) => (Decimal::ZERO, Some(*x)),
                                            SimpleFungibleResourceBounds::AtLeast(x) => (*x, None),
                                            SimpleFungibleResourceBounds::Between(a, b) => (*a, Some(*b)),
                                            SimpleFungibleResourceBounds::UnknownAmount => (Decimal::ZERO, None),
                                        },
                                        Some(SimpleResourceBounds::NonFungible(b)) => match b {
                                            SimpleNonFungibleResourceBounds::Exact { amount, .. } => (*amount, Some(*amount)),
                                            SimpleNonFungibleResourceBounds::NotExact { certain_ids, lower_bound, upper_bound, .. } => (
                                                match lower_bound {
                                                    LowerBound::Inclusive(x) => (*x).max(Decimal::from(certain_ids.len())),
                                                    _ => Decimal::from(certain_ids.len()),
                                                },
                                                match upper_bound {
                                                    UpperBound::Inclusive(x) => Some(*x),
                                                    _ => None,
                                                },
                                            ),
                                        },
                                    };
                                    let e = pdep.entry((acct, *r)).or_insert((Decimal::ZERO, Some(Decimal::ZERO)));
                                    e.0 += lo;
                                    e.1 = match (e.1, hi) {
                                        (Some(a), Some(b)) => Some(a + b),
                                        _ => None,
                                    };
                                }
                            }
                        }
                        let mut bad = None;
                        for p in view.parties.iter().take(N_PARTIES) {
                            for r in &all_res {
                                let k = (p.account, *r);
                                let (aw, ad) = (wd.get(&k).copied().unwrap_or(Decimal::ZERO), dep.get(&k).copied().unwrap_or(Decimal::ZERO));
                                let pw = pwd.get(&k).copied().unwrap_or(Decimal::ZERO);
                                if aw != pw {
                                    bad = Some(format!("account {:?} resource {:?}: withdrew {} but the analyser reports withdrawals of {}", p.account, r, aw, pw));
                                }
                                let (lo, hi) = pdep.get(&k).copied().unwrap_or((Decimal::ZERO, Some(Decimal::ZERO)));
                                if ad < lo || hi.map(|h| ad > h).unwrap_or(false) {
                                    bad = Some(format!("account {:?} resource {:?}: deposited {} but the analyser bounds the deposits by [{}, {:?}]", p.account, r, ad, lo, hi));
                                }
                                if hi.is_none() {
                                    stats.bump("analysis.unbounded_deposit");
                                } else if ad.is_positive() {
                                    stats.bump("analysis.bounded_deposit_checked");
                                }
                                if aw.is_positive() {
                                    stats.bump("analysis.withdraw_checked");
                                }
                            }
                        }
                        if let Some(d) = bad {
                            violation = Some(mk("c38.movement_outside_static_bounds", format!("program {:?}: {}", instrs, d)));
                            break;
                        }
                        stats.bump("analysis.compared_with_execution");
                    }
                    // on success with a full verdict: vault balances equal the interpreter's
                    if success && verdict == Pred::Ok && matches!(self.id, "C09" | "C10") {
                        let after = cur(&node, &w);
                        let mut exp = it.vault_f.clone();
                        for ((to, r), a) in &it.dep_f {
                            if *to == 0 {
                                exp[*r as usize] += a;
                            }
                        }
                        if after.vault_f != exp {
                            violation = Some(mk(
                                &format!("{}.vault_balances_differ_from_interpreter", self.id.to_lowercase()),
                                format!("after {:?}: account balances {:?}, interpreter {:?} (start {:?})", instrs, after.vault_f, exp, start_vault_f),
                            ));
                            break;
                        }
                        let mut exp_n = it.vault_n.clone();
                        if let Some(d) = it.dep_n.get(&0) {
                            exp_n.extend(d.iter().copied());
                        }
                        if after.vault_n != exp_n {
                            violation = Some(mk(&format!("{}.vault_ids_differ_from_interpreter", self.id.to_lowercase()), format!("after {:?}: ids {:?}, interpreter {:?}", instrs, after.vault_n, exp_n)));
                            break;
                        }
                    }
                    // C10: after the transaction every lock is gone: the full balance can be withdrawn
                    if self.id == "C10" {
                        let after = cur(&node, &w);
                        // the stored non-fungible vault holds exactly its ids (nothing stays locked)
                        if let Some(v) = w.nres.and_then(|r| account_vault(&node.db, view.parties[0].account, r)) {
                            if let Some(amt) = super::monitors::nf_vault_amount(&node.db, &v) {
                                if amt != Decimal::from(after.vault_n.len()) {
                                    violation = Some(mk(
                                        "c10.nf_vault_amount_differs_from_ids_after_proofs",
                                        format!("after program {:?} the non-fungible vault records amount {} but holds {} ids", instrs, amt, after.vault_n.len()),
                                    ));
                                    break;
                                }
                            }
                        }
                        let mut b = ManifestBuilder::new().lock_fee_from_faucet();
                        for (i, r) in w.fres.iter().enumerate() {
                            let d = Decimal::try_from(fmt_attos(after.vault_f[i]).as_str()).unwrap();
                            b = b.withdraw_from_account(view.parties[0].account, *r, d);
                        }
                        let m = b.try_deposit_entire_worktop_or_abort(view.parties[0].account, None).build();
                        let nonce = node.next_nonce();
                        if let Ok(exe) = TxSpec::new(m, nonce, btreeset![proof0.clone()]).build(&node.validator) {
                            stats.evaluations += 1;
                            if let Ok(r2) = node.execute(&exe, &ExecOpts::default()) {
                                let ok2 = matches!(&r2.result, TransactionResult::Commit(c) if matches!(c.outcome, TransactionOutcome::Success(_)));
                                stats.bump("probe.followup_full_withdraw");
                                if !ok2 {
                                    violation = Some(mk(
                                        "c10.full_balance_not_withdrawable_after_proofs_dropped",
                                        format!("after program {:?} a transaction withdrawing the full balances {:?} fails", instrs, after.vault_f),
                                    ));
                                    break;
                                }
                            }
                        }
                    }
                    digest = prng::mix(digest, prng::mix(success as u64, prng::fnv64(err_text.as_bytes()) & 0xff));
                }
            }
        }
        RunOutcome { steps: steps.taken, violation, stats, digest }
    }

    fn simplify_step(&self, step: &Step) -> Vec<Step> {
        match step {
            Step::Program { instrs, fault_at } => {
                let mut v = vec![];
                for i in 0..instrs.len() {
                    if instrs.len() > 1 {
                        let mut s = instrs.clone();
                        s.remove(i);
                        v.push(Step::Program { instrs: s, fault_at: *fault_at });
                    }
                }
                if fault_at.is_some() {
                    v.push(Step::Program { instrs: instrs.clone(), fault_at: None });
                }
                v
            }
            _ => vec![],
        }
    }
}
