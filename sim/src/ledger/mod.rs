//! Ledger world: a single simulated node with many clients (DESIGN section 3.1).

pub mod accessctl;
pub mod auth;
pub mod c07;
pub mod c44;
pub mod deposits;
pub mod determinism;
pub mod fees;
pub mod locked;
pub mod monitors;
pub mod nfids;
pub mod node;
pub mod pools;
pub mod programs;
pub mod steps;
pub mod transport;
pub mod validators;

use crate::simkit::*;
use monitors::*;
use node::*;
use radix_common::prelude::*;
use radix_engine::errors::*;
use radix_engine::system::system_modules::costing::*;
use radix_engine::transaction::*;
use radix_transactions::prelude::*;
use serde::{Deserialize, Serialize};
use serde_json::json;
use std::collections::BTreeSet;
use steps::*;

#[derive(Clone, Debug, Serialize, Deserialize)]
pub struct LCfg {
    pub n_steps: usize,
    pub weights: Weights,
    /// per-mille of user transactions executed with an injected fault (F5-F7)
    pub fault_permille: u32,
    /// per-mille of user transactions on which the C02 sweep is run
    pub sweep_permille: u32,
    /// full scans (C04/C05) every this many commits (0 = only at the end)
    pub scan_every: u32,
    /// stride of the stratified sweep sample (1 = every position)
    pub sweep_stride_target: u32,
    /// costing parameter override for user transactions:
    /// [execution unit price, finalization unit price, usd price, state storage price, archive storage price]
    #[serde(default)]
    pub costing: Option<Vec<String>>,
    /// per-mille of user transactions on which the C06 fee probe is run
    #[serde(default)]
    pub fee_probe_permille: u32,
}

pub fn costing_of(cfg: &LCfg) -> Option<CostingParameters> {
    let c = cfg.costing.as_ref()?;
    let mut cp = CostingParameters::latest();
    let d = |s: &String, dflt: Decimal| Decimal::try_from(s.as_str()).unwrap_or(dflt);
    cp.execution_cost_unit_price = d(&c[0], cp.execution_cost_unit_price);
    cp.finalization_cost_unit_price = d(&c[1], cp.finalization_cost_unit_price);
    cp.usd_price = d(&c[2], cp.usd_price);
    cp.state_storage_price = d(&c[3], cp.state_storage_price);
    cp.archive_storage_price = d(&c[4], cp.archive_storage_price);
    // optional: execution / finalization cost unit limits
    if let Some(l) = c.get(5).and_then(|s| s.parse::<u32>().ok()) {
        cp.execution_cost_unit_limit = l;
    }
    if let Some(l) = c.get(6).and_then(|s| s.parse::<u32>().ok()) {
        cp.finalization_cost_unit_limit = l;
    }
    Some(cp)
}

pub struct LedgerCheck {
    pub id: &'static str,
}

pub const LEDGER_IDS: &[&str] = &["C02", "C03", "C04", "C05", "C06", "C11", "C49", "C51"];

/// C49: the limit kinds a probe can lower (one at a time), with the error each must raise.
pub const LIMIT_KINDS: [(&str, &str); 8] = [
    ("max_call_depth", "MaxCallDepthLimitReached"),
    ("max_heap_substate_total_bytes", "HeapSubstateSizeExceeded"),
    ("max_track_substate_total_bytes", "TrackSubstateSizeExceeded"),
    ("max_substate_key_size", "MaxSubstateKeySizeExceeded"),
    ("max_substate_value_size", "MaxSubstateSizeExceeded"),
    ("max_invoke_input_size", "MaxInvokePayloadSizeExceeded"),
    ("max_event_size", "EventSizeTooLarge"),
    ("max_number_of_events", "TooManyEvents"),
];

fn limit_field(lp: &mut LimitParameters, kind: usize) -> &mut usize {
    match kind {
        0 => &mut lp.max_call_depth,
        1 => &mut lp.max_heap_substate_total_bytes,
        2 => &mut lp.max_track_substate_total_bytes,
        3 => &mut lp.max_substate_key_size,
        4 => &mut lp.max_substate_value_size,
        5 => &mut lp.max_invoke_input_size,
        6 => &mut lp.max_event_size,
        _ => &mut lp.max_number_of_events,
    }
}

pub fn static_id(id: &str) -> Option<&'static str> {
    LEDGER_IDS.iter().find(|x| **x == id).copied()
}

fn injected_error(e: &RuntimeError) -> bool {
    matches!(
        e,
        RuntimeError::SystemModuleError(SystemModuleError::CostingError(CostingError::FeeReserveError(
            FeeReserveError::InsufficientBalance { required, .. }
        ))) if *required == Decimal::MAX
    )
}

/// Did the injected error fire in this execution?
pub fn injection_fired(r: &TransactionReceipt) -> bool {
    match &r.result {
        TransactionResult::Commit(c) => match &c.outcome {
            TransactionOutcome::Failure(e) => injected_error(e),
            _ => false,
        },
        TransactionResult::Reject(rj) => match &rj.reason {
            RejectionReason::ErrorBeforeLoanAndDeferredCostsRepaid(e) => injected_error(e),
            _ => false,
        },
        TransactionResult::Abort(_) => false,
    }
}

pub fn outcome_class(r: &TransactionReceipt) -> u64 {
    match &r.result {
        TransactionResult::Commit(c) => match &c.outcome {
            TransactionOutcome::Success(_) => 1,
            TransactionOutcome::Failure(_) => 2,
        },
        TransactionResult::Reject(_) => 3,
        TransactionResult::Abort(_) => 4,
    }
}

fn is_trap(r: &TransactionReceipt) -> Option<String> {
    if let TransactionResult::Commit(c) = &r.result {
        if let TransactionOutcome::Failure(e) = &c.outcome {
            let s = format!("{:?}", e);
            if s.contains("Trap") {
                return Some(s);
            }
        }
    }
    None
}

pub fn opts_for(fault: &Fault, system: bool) -> ExecOpts {
    let mut o = ExecOpts::default();
    o.system_tx = system;
    match fault {
        Fault::None | Fault::Sweep | Fault::FeeProbe | Fault::LimitProbe(_) => {}
        Fault::InjectAt(k) => o.inject_at = Some(*k),
        Fault::CostLimit(c) => o.cost_unit_limit = Some(*c),
        Fault::AbortOnRepay => o.abort_when_loan_repaid = true,
    }
    o
}

pub fn tip_of(bp: u32) -> TipSpecifier {
    if bp == 0 {
        TipSpecifier::None
    } else if bp % 100 == 0 && bp / 100 <= u16::MAX as u32 {
        TipSpecifier::Percentage((bp / 100) as u16)
    } else {
        TipSpecifier::BasisPoints(bp)
    }
}

pub struct RunCtx {
    pub node: Node,
    pub view: View,
    pub stats: Stats,
    pub digest: u64,
}

impl LedgerCheck {
    fn wants(&self, what: &str) -> bool {
        match what {
            // per-commit conservation
            "c03" => self.id == "C03" || self.id == "C04",
            "c04" => self.id == "C04",
            "c05" => self.id == "C05" || self.id == "C02",
            "c02" => self.id == "C02",
            "c11" => self.id == "C11",
            _ => false,
        }
    }

    /// The vaults on which this step's manifest may lock a fee.
    fn fee_vaults(&self, step: &LStep, ctx: &RunCtx) -> BTreeSet<NodeId> {
        let mut s = BTreeSet::new();
        if let Some(v) = faucet_vault(&ctx.node.db) {
            s.insert(v);
        }
        if let Some(p) = ctx.view.parties.get(step.actor as usize) {
            if let Some(v) = account_vault(&ctx.node.db, p.account, XRD) {
                s.insert(v);
            }
        }
        s
    }

    fn sweep(&self, cfg: &LCfg, step: &LStep, exe: &ExecutableTransaction, ctx: &mut RunCtx, tier: Tier) -> Result<(), Fail> {
        let base_opts = opts_for(&Fault::None, false);
        // reference execution without injection
        ctx.stats.evaluations += 1;
        let reference = match ctx.node.execute(exe, &base_opts) {
            Ok(r) => r,
            Err(p) => return Err(("c11.engine_panicked".into(), format!("reference execution: {}", p))),
        };
        // "affected" = the injection changed the result (the injected error may surface as itself
        // or be mapped to another error by the code it interrupts)
        let fired = |k: u64, ctx: &mut RunCtx| -> Result<(bool, TransactionReceipt), Fail> {
            let mut o = base_opts.clone();
            o.inject_at = Some(k);
            ctx.stats.evaluations += 1;
            match ctx.node.execute(exe, &o) {
                Ok(r) => Ok((r.result != reference.result, r)),
                Err(p) => Err(("c11.engine_panicked".into(), format!("inject at {}: {}", k, p))),
            }
        };
        // N = number of costing calls = largest k at which the injection changes the result
        let mut hi = 64u64;
        while fired(hi, ctx)?.0 && hi < 2_000_000 {
            hi *= 2;
        }
        let mut lo = 0u64;
        while hi - lo > 1 {
            let mid = (lo + hi) / 2;
            if fired(mid, ctx)?.0 {
                lo = mid;
            } else {
                hi = mid;
            }
        }
        let n = lo;
        ctx.stats.add("sweep.injection_points_total", n);
        ctx.stats.bump("sweep.transactions");
        let allowed = self.fee_vaults(step, ctx);
        let stride = if tier == Tier::Thorough { 1 } else { (n / cfg.sweep_stride_target.max(1) as u64).max(1) };
        let mut k = 1u64;
        while k <= n {
            let in_head = k <= 40;
            let in_tail = k + 40 > n;
            if in_head || in_tail || k % stride == 0 {
                let (f, r) = fired(k, ctx)?;
                ctx.stats.bump("fault.inject_costing_error_fired");
                if !f {
                    ctx.stats.bump("sweep.injection_without_effect");
                } else if !injection_fired(&r) && outcome_class(&r) != 1 {
                    ctx.stats.bump("probe.injected_error_surfaced_as_other_error");
                }
                match &r.result {
                    TransactionResult::Commit(c) if matches!(c.outcome, TransactionOutcome::Success(_)) => {
                        ctx.stats.bump("sweep.commit_success");
                    }
                    TransactionResult::Commit(c) => {
                        ctx.stats.bump("sweep.commit_failure");
                        c02_failure_changes_only_fees(&ctx.node.db, c, &allowed).map_err(|(m, d)| (m, format!("injected error at costing call {} of {}: {}", k, n, d)))?;
                        c03_conservation(&ctx.node.db, c).map_err(|(m, d)| (m.replace("c03.", "c02.invariant_"), format!("injected error at costing call {} of {}: {}", k, n, d)))?;
                        ctx.stats.distinct.insert(prng::mix(prng::fnv64(&scrypto_encode(&c.state_updates).unwrap()), prng::mix(2, k)));
                    }
                    TransactionResult::Reject(_) => {
                        ctx.stats.bump("sweep.reject");
                        ctx.stats.distinct.insert(prng::mix(prng::fnv64(exe.unique_hash().as_bytes()), prng::mix(3, k)));
                    }
                    TransactionResult::Abort(_) => {
                        ctx.stats.bump("sweep.abort");
                    }
                }
            }
            k += 1;
        }
        Ok(())
    }

    fn fee_ctx(&self, step: &LStep, ctx: &RunCtx) -> fees::FeeCtx {
        let payer_vault = account_vault(&ctx.node.db, ctx.view.parties[PAYER].account, XRD);
        let actor_vault = ctx.view.parties.get(step.actor as usize).and_then(|p| account_vault(&ctx.node.db, p.account, XRD));
        fees::FeeCtx {
            dedicated_payer_vault: if matches!(step.fee, Fee::Payer { .. } | Fee::PayerContingent { .. }) { payer_vault } else { None },
            contingent_only_vault: if matches!(step.fee, Fee::PayerContingent { .. }) { actor_vault } else { None },
            free_credit: Decimal::ZERO,
        }
    }

    fn exe_with_fee(&self, step: &LStep, fee: Fee, ctx: &mut RunCtx) -> Option<(ExecutableTransaction, LStep)> {
        let mut s = step.clone();
        s.fee = fee;
        let Built::User(m) = build(&s, &ctx.view, &ctx.node) else { return None };
        let nonce = ctx.node.next_nonce();
        let actor = &ctx.view.parties[s.actor as usize];
        let mut spec = TxSpec::new(m, nonce, btreeset![actor.proof.clone(), ctx.view.parties[PAYER].proof.clone()]);
        spec.tip = tip_of(s.tip_bp);
        spec.build(&ctx.node.validator).ok().map(|e| (e, s))
    }

    /// C49: per limit kind in `mask`, locate by bisection the smallest limit under which the
    /// transaction still executes exactly as under the protocol limits, then check the threshold:
    /// below it the transaction fails with that limit's error, at and above it the result is
    /// identical; event count / size thresholds equal what the receipt shows. Nothing is committed.
    fn limit_probe(&self, step: &LStep, exe: &ExecutableTransaction, ctx: &mut RunCtx, mask: u16) -> Result<(), Fail> {
        let base = opts_for(&Fault::None, false);
        ctx.stats.evaluations += 1;
        let reference = match ctx.node.execute(exe, &base) {
            Ok(r) => r,
            Err(p) => return Err(("c11.engine_panicked".into(), format!("reference execution: {}", p))),
        };
        let TransactionResult::Commit(c0) = &reference.result else { return Ok(()) };
        if !matches!(c0.outcome, TransactionOutcome::Success(_)) {
            return Ok(());
        }
        ctx.stats.bump("limit.probed_transactions");
        let mut fork = Rng::from_u64(prng::fnv64(exe.unique_hash().as_bytes()) ^ mask as u64);
        for kind in 0..LIMIT_KINDS.len() {
            if mask & (1 << kind) == 0 {
                continue;
            }
            let (name, error) = LIMIT_KINDS[kind];
            let default = *limit_field(&mut LimitParameters::babylon_genesis(), kind);
            // Ok(true): identical result; Ok(false): failed with this limit's error
            let mut run = |v: usize, ctx: &mut RunCtx| -> Result<bool, Fail> {
                let mut o = base.clone();
                let mut lp = LimitParameters::babylon_genesis();
                *limit_field(&mut lp, kind) = v;
                o.limit_parameters = Some(lp);
                ctx.stats.evaluations += 1;
                let r = match ctx.node.execute(exe, &o) {
                    Ok(r) => r,
                    Err(p) => return Err(("c11.engine_panicked".into(), format!("{} = {}: {}", name, v, p))),
                };
                if r.result == reference.result {
                    return Ok(true);
                }
                let why = match &r.result {
                    TransactionResult::Commit(c) => format!("{:?}", c.outcome),
                    TransactionResult::Reject(rj) => format!("{:?}", rj.reason),
                    TransactionResult::Abort(a) => format!("{:?}", a.reason),
                };
                let succeeded = matches!(&r.result, TransactionResult::Commit(c) if matches!(c.outcome, TransactionOutcome::Success(_)));
                if succeeded {
                    return Err(("c49.limit_changes_successful_result".into(), format!("step {:?}: with {} = {} the transaction still succeeds but with a different result than under the protocol limits", step, name, v)));
                }
                if !why.contains(error) {
                    if why.contains("TransactionLimitsError") {
                        return Err(("c49.wrong_limit_error".into(), format!("step {:?}: with only {} lowered to {} the transaction fails with {}", step, name, v, &why[..why.len().min(300)])));
                    }
                    // the limit error was swallowed / mapped by the code it interrupted: an observation, the threshold still counts
                    ctx.stats.bump("probe.limit_error_surfaced_as_other_error");
                } else if kind != 0 && kind != 7 {
                    // the error reports the offending size: a transaction may only be failed for a size
                    // that really exceeds the limit in force ("one that stays within them is not failed")
                    let tail = &why[why.find(error).unwrap() + error.len()..];
                    let numbers: Vec<usize> = tail
                        .split(|c: char| !c.is_ascii_digit())
                        .filter(|s| !s.is_empty())
                        .take(2)
                        .filter_map(|s| s.parse().ok())
                        .collect();
                    if let Some(actual) = numbers.first() {
                        ctx.stats.bump("limit.reported_size_checked");
                        if *actual <= v {
                            return Err((
                                "c49.failed_although_within_limit".into(),
                                format!("step {:?}: with {} = {} the transaction is failed with {} reporting a size of {} which does not exceed the limit", step, name, v, error, actual),
                            ));
                        }
                    }
                }
                Ok(false)
            };
            if !run(default, ctx)? {
                return Err(("c49.fails_under_protocol_limit".into(), format!("step {:?}: {} at its protocol value {} fails", step, name, default)));
            }
            // smallest v with an identical result (monotonicity is then sampled)
            let (mut lo, mut hi) = (0usize, default); // hi: ok
            if run(0, ctx)? {
                hi = 0;
            } else {
                while hi - lo > 1 {
                    let mid = lo + (hi - lo) / 2;
                    if run(mid, ctx)? {
                        hi = mid;
                    } else {
                        lo = mid;
                    }
                }
            }
            let need = hi;
            ctx.stats.bump(&format!("limit.threshold_located.{}", name));
            ctx.stats.distinct.insert(prng::mix(prng::fnv64(name.as_bytes()), need as u64));
            for _ in 0..3 {
                if need > 0 {
                    let v = fork.below(need as u64) as usize;
                    if run(v, ctx)? {
                        return Err(("c49.threshold_not_monotone".into(), format!("step {:?}: {} = {} gives the full result although {} = {} fails (threshold located at {})", step, name, v, name, need - 1, need)));
                    }
                }
                if need < default {
                    let v = need + 1 + fork.below((default - need) as u64) as usize;
                    if !run(v, ctx)? {
                        return Err(("c49.threshold_not_monotone".into(), format!("step {:?}: {} = {} fails although {} = {} gives the full result", step, name, v, name, need)));
                    }
                }
            }
            if need > 0 {
                ctx.stats.bump("limit.failure_just_below_threshold");
            }
            // independent measures from the reference receipt. The limits apply to events emitted
            // during execution; fee finalization appends (one DepositEvent per royalty recipient,)
            // PayFeeEvents, the reward deposit and the burn afterwards. PayFeeEvent exists only there.
            let first_pay = c0.application_events.iter().position(|(radix_engine_interface::prelude::EventTypeIdentifier(_, n), _)| n == "PayFeeEvent").unwrap_or(c0.application_events.len());
            let n_exec = first_pay.saturating_sub(c0.fee_destination.to_royalty_recipients.len());
            match kind {
                7 => {
                    let n = n_exec;
                    if need != n {
                        return Err(("c49.event_count_threshold".into(), format!("step {:?}: the transaction emits {} events but the smallest max_number_of_events under which it runs is {}", step, n, need)));
                    }
                }
                6 => {
                    let m = c0.application_events.iter().take(n_exec).map(|(_, d)| d.len()).max().unwrap_or(0);
                    if need != m {
                        return Err(("c49.event_size_threshold".into(), format!("step {:?}: the largest event payload has {} bytes but the smallest max_event_size under which it runs is {}", step, m, need)));
                    }
                }
                4 => {
                    // committed values can never be larger than the threshold
                    let mut largest = 0usize;
                    for (_, nu) in &c0.state_updates.by_node {
                        let NodeStateUpdates::Delta { by_partition } = nu;
                        for (_, pu) in by_partition {
                            if let PartitionStateUpdates::Delta { by_substate } = pu {
                                for (_, u) in by_substate {
                                    if let DatabaseUpdate::Set(v) = u {
                                        largest = largest.max(v.len());
                                    }
                                }
                            }
                        }
                    }
                    if largest > need {
                        return Err(("c49.committed_value_above_threshold".into(), format!("step {:?}: a committed substate value has {} bytes but the transaction runs with max_substate_value_size = {}", step, largest, need)));
                    }
                }
                _ => {}
            }
        }
        Ok(())
    }

    /// C06: learn the total cost T with a generous lock on the dedicated payer, then probe locks
    /// of exactly T and T -/+ a few attos. Nothing is committed.
    fn fee_probe(&self, cfg: &LCfg, step: &LStep, ctx: &mut RunCtx) -> Result<(), Fail> {
        let mut opts = opts_for(&Fault::None, false);
        opts.costing_parameters = costing_of(cfg);
        let run = |fee: Fee, ctx: &mut RunCtx| -> Result<Option<(TransactionReceipt, LStep)>, Fail> {
            let Some((exe, s)) = self.exe_with_fee(step, fee, ctx) else { return Ok(None) };
            ctx.stats.evaluations += 1;
            match ctx.node.execute(&exe, &opts) {
                Ok(r) => Ok(Some((r, s))),
                Err(p) => {
                    if fees::is_fee_assertion(&p) {
                        Err(("c06.executor_fee_assertion_fired".into(), format!("fee probe of step {:?} with lock {:?}, costing {:?}: {}", step, s.fee, cfg.costing, p)))
                    } else {
                        Err(("c11.engine_panicked".into(), format!("fee probe: {}", p)))
                    }
                }
            }
        };
        let Some((r0, s0)) = run(Fee::Payer { amount: "4000".into() }, ctx)? else { return Ok(()) };
        if !matches!(r0.result, TransactionResult::Commit(_)) {
            return Ok(());
        }
        let fctx = self.fee_ctx(&s0, ctx);
        let total = fees::c06_check(&ctx.node.db, &r0, &fctx)?;
        ctx.stats.bump("probe.fee_probes");
        let one = num_bigint::BigInt::from(10u64).pow(18);
        for delta in [0i64, -1, 1, -1000, 1000, -1_000_000_000, 1_000_000_000] {
            let t = &total + num_bigint::BigInt::from(delta);
            if t < num_bigint::BigInt::from(0) {
                continue;
            }
            let whole = &t / &one;
            let frac = &t % &one;
            let amount = format!("{}.{:0>18}", whole, frac.to_string());
            let Some((r, s)) = run(Fee::Payer { amount: amount.clone() }, ctx)? else { continue };
            match &r.result {
                TransactionResult::Commit(_) => {
                    let fctx = self.fee_ctx(&s, ctx);
                    fees::c06_check(&ctx.node.db, &r, &fctx).map_err(|(m, d)| (m, format!("lock of {} (total cost {} attos, delta {}): {}", amount, total, delta, d)))?;
                    ctx.stats.bump(if delta < 0 { "probe.commit_with_lock_below_reference_cost" } else { "probe.commit_with_lock_at_or_above_cost" });
                }
                TransactionResult::Reject(_) => {
                    ctx.stats.bump(if delta < 0 { "probe.reject_with_lock_below_cost" } else { "probe.reject_with_lock_at_or_above_cost" });
                }
                TransactionResult::Abort(_) => {}
            }
        }
        Ok(())
    }

    /// Executes one step end to end. Returns Err((monitor, detail)) on a violation.
    fn do_step(&self, cfg: &LCfg, step: &LStep, ctx: &mut RunCtx, sweep_this: bool, tier: Tier) -> Result<(), Fail> {
        let built = build_any(step, &ctx.view, &ctx.node);
        let (exe, system) = match built {
            Built::Skip => {
                ctx.stats.bump("steps.skipped_unbound_name");
                return Ok(());
            }
            Built::Restart => {
                ctx.node.restart();
                ctx.stats.bump("fault.restart_fired");
                return Ok(());
            }
            Built::System(m) => {
                let nonce = ctx.node.next_nonce();
                (system_executable(m, nonce, &ctx.node.validator), true)
            }
            Built::User(m) => {
                let nonce = ctx.node.next_nonce();
                let actor = &ctx.view.parties[step.actor as usize];
                let mut proofs = btreeset![actor.proof.clone()];
                if matches!(step.fee, Fee::Payer { .. } | Fee::PayerContingent { .. }) {
                    proofs.insert(ctx.view.parties[PAYER].proof.clone());
                }
                let mut spec = TxSpec::new(m, nonce, proofs);
                spec.tip = tip_of(step.tip_bp);
                match spec.build(&ctx.node.validator) {
                    Ok(e) => (e, false),
                    Err(_) => {
                        ctx.stats.bump("steps.unpreparable");
                        return Ok(());
                    }
                }
            }
        };
        if self.wants("c02") && sweep_this && !system {
            self.sweep(cfg, step, &exe, ctx, tier)?;
        }
        let mut opts = opts_for(if system { &Fault::None } else { &step.fault }, system);
        if !system {
            opts.costing_parameters = costing_of(cfg);
            if let (Body::Fund, Some(cp)) = (&step.body, opts.costing_parameters.as_mut()) {
                // funding is infrastructure: keep the protocol's cost unit limits for it
                let latest = CostingParameters::latest();
                cp.execution_cost_unit_limit = latest.execution_cost_unit_limit;
                cp.finalization_cost_unit_limit = latest.finalization_cost_unit_limit;
            }
        }
        // the fresh-process re-run enables kernel tracing (stdout discarded): results must not change
        opts.kernel_trace = std::env::var("VERIF_KERNEL_TRACE").is_ok();
        if self.id == "C06" && step.fault == Fault::FeeProbe && !system {
            self.fee_probe(cfg, step, ctx)?;
        }
        if let (Fault::LimitProbe(mask), "C49", false) = (&step.fault, self.id, system) {
            self.limit_probe(step, &exe, ctx, *mask)?;
        }
        ctx.stats.evaluations += 1;
        let receipt = match ctx.node.execute(&exe, &opts) {
            Ok(r) => r,
            Err(p) => {
                ctx.stats.bump("note.engine_panicked");
                if fees::is_fee_assertion(&p) {
                    return Err(("c06.executor_fee_assertion_fired".into(), format!("step {:?} costing {:?}: {}", step, cfg.costing, p)));
                }
                return Err(("c11.engine_panicked".into(), format!("step {:?}: {}", step, p)));
            }
        };
        if let Some(t) = is_trap(&receipt) {
            return Err(("c11.native_trap".into(), format!("step {:?}: {}", step, t)));
        }
        let class = outcome_class(&receipt);
        ctx.stats.bump(match class {
            1 => "outcome.commit_success",
            2 => "outcome.commit_failure",
            3 => "outcome.reject",
            _ => "outcome.abort",
        });
        if class != 1 && std::env::var("VERIF_DEBUG").map(|v| v == step.body.kind()).unwrap_or(false) {
            let why = match &receipt.result {
                TransactionResult::Commit(c) => format!("{:?}", c.outcome),
                TransactionResult::Reject(r) => format!("{:?}", r.reason),
                TransactionResult::Abort(a) => format!("{:?}", a.reason),
            };
            eprintln!("DEBUG {:?} -> {}", step, &why[..why.len().min(600)]);
        }
        if step.fault == Fault::None || step.fault == Fault::Sweep {
            ctx.stats.bump(&format!("{}.{}", if class == 1 { "ok" } else { "notok" }, step.body.kind()));
        }
        if !system {
            ctx.stats.bump(match &step.fault {
                Fault::None => "fault.none",
                Fault::Sweep => "fault.sweep",
                Fault::FeeProbe => "fault.fee_probe",
                Fault::LimitProbe(_) => "fault.limit_probe",
                Fault::InjectAt(_) => {
                    if injection_fired(&receipt) {
                        "fault.inject_costing_error_fired"
                    } else {
                        "fault.inject_beyond_last_call"
                    }
                }
                Fault::CostLimit(_) => "fault.cost_limit_configured",
                Fault::AbortOnRepay => "fault.abort_on_repay_configured",
            });
        }
        if let TransactionResult::Commit(c) = &receipt.result {
            if self.wants("c03") {
                // for C04 the per-commit deltas are the inductive step of "supply == sum of vaults"
                c03_conservation(&ctx.node.db, c).map_err(|(m, d)| if self.id == "C04" { (m.replace("c03.", "c04.delta_"), d) } else { (m, d) })?;
            }
            if self.wants("c02") && class == 2 && !system {
                let allowed = self.fee_vaults(step, ctx);
                c02_failure_changes_only_fees(&ctx.node.db, c, &allowed)?;
                ctx.stats.bump("c02.natural_or_injected_failure_checked");
            }
            if self.id == "C51" {
                let st = locked::c51_locked_unchanged(&ctx.node.db, c)?;
                ctx.stats.add("c51.locked_substates_rewritten_identically", st.locked_substates_rewritten_identically);
                ctx.stats.add("c51.newly_locked_substates", st.newly_locked);
                ctx.stats.add("c51.fixed_owner_roles_touched", st.owner_roles_fixed_seen);
                if class == 2 {
                    let why = format!("{:?}", c.outcome);
                    if why.contains("Locked") || why.contains("locked") {
                        ctx.stats.bump("c51.update_of_locked_state_refused");
                    }
                }
            }
            if self.id == "C06" && !system {
                let fctx = self.fee_ctx(step, ctx);
                fees::c06_check(&ctx.node.db, &receipt, &fctx)?;
                ctx.stats.bump("c06.commits_checked");
                if fctx.dedicated_payer_vault.is_some() {
                    ctx.stats.bump("c06.dedicated_payer_commits");
                }
                if fctx.contingent_only_vault.is_some() && class == 2 {
                    ctx.stats.bump("probe.contingent_lock_on_failed_tx");
                }
                if step.tip_bp > 0 {
                    ctx.stats.bump("c06.tipped_commits");
                }
            }
            let ud = prng::fnv64(&scrypto_encode(&c.state_updates).unwrap());
            ctx.stats.distinct.insert(prng::mix(ud, class));
            ctx.digest = prng::mix(ctx.digest, ud);
        } else {
            ctx.digest = prng::mix(ctx.digest, class);
        }
        ctx.node.commit(&receipt);
        absorb(step, &mut ctx.view, &receipt, &ctx.node);
        if cfg.scan_every > 0 && ctx.node.commits % cfg.scan_every as u64 == 0 && class <= 2 {
            self.scans(cfg, ctx)?;
        }
        Ok(())
    }

    fn scans(&self, cfg: &LCfg, ctx: &mut RunCtx) -> Result<(), Fail> {
        let repo = !cfg.weights.allow_freezable;
        if self.wants("c04") {
            let r = c04_scan(&ctx.node.db)?;
            ctx.stats.add("scan.vaults_summed", r.vaults as u64);
            ctx.stats.bump("scan.c04_full_scans");
            if repo {
                repo_checkers(&ctx.node.db, &ctx.node.events, !ctx.node.free_credit_used, "c04")?;
                ctx.stats.bump("scan.repo_checkers_run");
            }
        }
        if self.wants("c05") {
            let n = c05_ownership(&ctx.node.db).map_err(|(m, d)| if self.id == "C02" { (m.replace("c05.", "c02.invariant_"), d) } else { (m, d) })?;
            ctx.stats.add("scan.values_decoded", n as u64);
            ctx.stats.bump("scan.c05_full_scans");
            if repo {
                repo_checkers(&ctx.node.db, &ctx.node.events, false, "c05").map_err(|(m, d)| if self.id == "C02" { (m.replace("c05.", "c02.invariant_"), d) } else { (m, d) })?;
                ctx.stats.bump("scan.repo_checkers_run");
            }
        }
        Ok(())
    }
}

impl World for LedgerCheck {
    type Step = LStep;
    type Cfg = LCfg;

    fn property(&self) -> &'static str {
        self.id
    }
    fn world(&self) -> &'static str {
        "ledger"
    }
    fn level(&self) -> &'static str {
        if self.id == "C02" {
            "fault_enumeration"
        } else {
            "exploration"
        }
    }
    fn rule(&self) -> String {
        let common = "Per run: a node bootstrapped by the real protocol executor (genesis + all protocol updates), 4 client parties, and a seeded history of symbolic steps (fund, create fungible / non-fungible resources, mint, burn, transfer, leak, recall, freeze, one- and two-resource pools, validators: create/register/stake/unstake/claim, metadata set/lock, consensus rounds = epoch changes with emissions, node restarts) with fee locks on the faucet or the own account (incl. contingent, missing), tips, and injected faults (F5 system error at the k-th costing call, F6 cost unit limit, F7 abort on loan repayment, F8 restart). ";
        let specific = match self.id {
            "C02" => "For sampled user transactions the injected-error position k is ENUMERATED over the costing calls of the transaction (N found by bisection; quick tier: all k<=40, the last 40 and a stride in between; thorough: every k): each commit-failure's state updates are decoded against the pre-state and may touch only XRD vault balances of the fee lockers, the validator rewards field + vault and the transaction tracker; only fee events; fee flow sums to zero; rejects/aborts carry no commit. Naturally failing and fault-injected transactions in the history are checked the same way and kept; store scanners run afterwards. evaluations = engine executions; distinct = distinct (state-updates digest, outcome class, injection position).",
            "C03" => "After every commit (success or failure) the state updates are decoded against the pre-state: per resource, sum of vault balance changes == minted - burned (mint/burn events) == change of the recorded total supply (where tracked); per non-fungible id the vault membership change equals minted - burned. evaluations = engine executions; distinct = distinct (state-updates digest, outcome class).",
            "C04" => "Every scan_every commits and at run end: own full-store scan (supply == sum of vaults per resource, no negative balance, NF amount == |ids|, no id in two vaults) and the repository's ResourceDatabaseChecker + ResourceEventChecker + ResourceReconciler (replay of all events since genesis). evaluations = engine executions; distinct = distinct (state-updates digest, outcome class).",
            "C05" => "Every scan_every commits and at run end: the repository's KernelDatabaseChecker and SystemDatabaseChecker (with role-assignment, royalty and resource application checkers) over the whole store, plus an own ownership pass (every stored internal node owned exactly once, no global node owned, stored values reference only global nodes). evaluations = engine executions; distinct = distinct (state-updates digest, outcome class).",
            "C06" => "Most fees are locked on a dedicated payer account (it does nothing else, so its vault change is exactly the payment), with 1-2 locks mixing contingent and non-contingent, amounts below/around/above the need, tips over the whole Percentage(u16) and BasisPoints(u32) ranges, and in half the runs overridden costing parameters (unit prices with 18 significant decimals, USD and storage prices). For every commit: paid == execution+finalization+tip+storage+royalties == proposer+validator set+burn+royalties, cost == units x price, tip within truncation bounds, proposer/validator shares (tips 100% proposer; network fees 25/25/50) within 2 attos, rewards vault delta, burn event, dedicated payer vault delta == reported payment (refund in full), contingent-only vault untouched on failure, cost units within limits. Fee probes: total cost T learned with a generous lock, then locks of exactly T and T -/+ {1, 1e3, 1e9} attos are executed (no commit): each must be a consistent commit or a reject; a panic of the executor's fee sanity assertions is the violation. Oracle arithmetic in BigInt attos. evaluations = engine executions; distinct = distinct (state-updates digest, outcome class).",
            "C51" => "Model-free history invariant: for every commit each updated substate is compared with its pre-state; a substate whose stored lock status is Locked (object fields, key-value entries incl. metadata entries and non-fungible tombstones) or an owner role whose updater is None must be rewritten byte-identically or not at all. The workload locks metadata keys and owner roles (resources are created with Fixed or Updatable owner roles) and then every party - the owner included - keeps issuing set / lock / set-owner / mint / burn calls against them, with injected faults. evaluations = engine executions; distinct = distinct (state-updates digest, outcome class).",
            "C49" => "The workload additionally sets metadata entries with keys of 1..2000 and values of 0..100000 characters and issues up to 90 transfers per manifest. For sampled user transactions (F6, one limit at a time) two or three of the limits max_call_depth, max_heap_substate_total_bytes, max_track_substate_total_bytes, max_substate_key_size, max_substate_value_size, max_invoke_input_size, max_event_size, max_number_of_events are probed: the smallest value under which the transaction executes exactly as under the protocol limits is located by bisection; one below it the transaction must fail (with that limit's TransactionLimitsError unless the interrupted code maps it), at it and at 3 sampled larger values the result must be identical, 3 sampled smaller values must fail (monotone threshold); the event-count and event-size thresholds must equal what the receipt shows (execution-phase events), no committed substate value may be larger than the value-size threshold; whenever the limit error reports the offending size it must exceed the limit in force; a successful but different result under a lowered limit is a violation. Nothing probed is committed. evaluations = engine executions; distinct = distinct (limit kind, threshold) pairs + (state-updates digest, outcome class).",
            "C11" => "Every execution runs under catch_unwind with a recording panic hook; a panic or a NativeRuntimeError::Trap is the violation. evaluations = engine executions; distinct = distinct (state-updates digest, outcome class).",
            _ => "",
        };
        format!("{}{}", common, specific)
    }
    fn assumptions(&self) -> Vec<String> {
        vec![
            "The node loop (intake, execute, commit), clients, consensus driver and clock are ours; engine, native blueprints, WASM VM (faucet), transaction preparation and the in-memory store are real.".into(),
            "Transactions are built as executables directly (TestTransaction-style: signature proofs placed in the auth zone), no free credit is used.".into(),
            "Genesis is the simulator default (one validator, one round per epoch, 1 XRD emission per epoch).".into(),
            "Sampling, not proof; C02's fault positions are enumerated only for the sampled transactions (stride sample in the quick tier).".into(),
        ]
    }
    fn real_vs_stub(&self) -> serde_json::Value {
        json!({"real": ["radix-engine kernel/system/native blueprints/costing/limits/auth", "Scrypto VM + wasmi (faucet package)", "radix-transactions manifest builder and preparation", "protocol executor (genesis + updates)", "InMemorySubstateDatabase", "repository DB checkers (C04/C05 second opinion)", "scrypto-test InjectCostingError wrapper (existing fault seam)"],
               "stub_or_ours": ["clients and keys", "node loop and commit", "consensus driver and clock", "fault plans", "monitors"]})
    }
    fn probes(&self) -> Vec<&'static str> {
        let mut v = vec![
            "outcome.commit_success",
            "outcome.commit_failure",
            "outcome.reject",
            "fault.inject_costing_error_fired",
            "fault.restart_fired",
            "fault.cost_limit_configured",
            "fault.abort_on_repay_configured",
            "ok.Transfer",
            "ok.MintF",
            "ok.BurnF",
            "ok.Recall",
            "ok.Contribute",
            "ok.Redeem",
            "ok.Stake",
            "ok.Unstake",
            "ok.Round",
        ];
        match self.id {
            "C02" => v.extend(["sweep.transactions", "sweep.commit_failure", "sweep.reject", "c02.natural_or_injected_failure_checked"]),
            "C04" => v.extend(["scan.c04_full_scans", "ok.Claim"]),
            "C03" => v.extend(["ok.Claim"]),
            "C51" => v.extend(["c51.newly_locked_substates", "c51.update_of_locked_state_refused", "ok.LockMetadata", "ok.LockOwnerRole", "ok.SetOwnerRole"]),
            "C06" => v.extend(["c06.commits_checked", "c06.dedicated_payer_commits", "c06.tipped_commits", "probe.contingent_lock_on_failed_tx", "probe.fee_probes", "probe.reject_with_lock_below_cost", "probe.commit_with_lock_at_or_above_cost", "probe.commit_with_lock_below_reference_cost"]),
            "C05" => v.extend(["scan.c05_full_scans"]),
            "C49" => v.extend([
                "limit.probed_transactions",
                "limit.failure_just_below_threshold",
                "limit.threshold_located.max_call_depth",
                "limit.threshold_located.max_heap_substate_total_bytes",
                "limit.threshold_located.max_track_substate_total_bytes",
                "limit.threshold_located.max_substate_key_size",
                "limit.threshold_located.max_substate_value_size",
                "limit.threshold_located.max_invoke_input_size",
                "limit.threshold_located.max_event_size",
                "limit.threshold_located.max_number_of_events",
                "ok.BigMetadata",
                "notok.BigMetadata",
                "ok.MultiTransfer",
            ]),
            _ => {}
        }
        v
    }
    fn budget(&self, tier: Tier) -> (u64, u64) {
        match (self.id, tier) {
            ("C02", Tier::Quick) => (500, 45),
            ("C02", Tier::Thorough) => (2000, 1200),
            (_, Tier::Quick) => (1500, 45),
            (_, Tier::Thorough) => (40_000, 900),
        }
    }
    fn gen_cfg(&self, rng: &mut Rng, tier: Tier, run: u64) -> LCfg {
        let fault_free = run % 2 == 0 && self.id != "C02" && self.id != "C11";
        let weights = Weights {
            transfers: rng.range(1, 6) as u32,
            resources: rng.range(1, 6) as u32,
            pools: rng.range(0, 4) as u32,
            validators: rng.range(0, 4) as u32,
            rounds: rng.range(0, 3) as u32,
            failures: rng.range(0, 2) as u32,
            metadata: if self.id == "C51" { rng.range(4, 8) as u32 } else { rng.range(0, 2) as u32 },
            restarts: rng.range(0, 1) as u32,
            allow_freezable: !matches!(self.id, "C04" | "C05" | "C02") || rng.chance(1, 2),
            payer_fees: self.id == "C06",
            royalties: if self.id == "C06" { rng.range(1, 3) as u32 } else { rng.range(0, 2) as u32 },
            big_payloads: self.id == "C49",
            garbage: match self.id {
                "C11" => rng.range(2, 5) as u32,
                "C02" | "C05" => rng.range(0, 2) as u32,
                _ => 0,
            },
        };
        let mut weights = weights;
        if self.id == "C49" {
            weights.metadata = rng.range(2, 5) as u32;
        }
        // C06: costing parameter swarm - protocol values, or prices with many significant decimals
        let costing = if self.id == "C06" && rng.chance(1, 2) {
            let price = |rng: &mut Rng, protocol: &str| -> String {
                match rng.below(6) {
                    0 => protocol.to_string(),
                    1 => "0.000000000000000001".into(),
                    2 => "0.000000000000000003".into(),
                    3 => format!("0.0000000{}", rng.range(10_000_000_000, 99_999_999_999)),
                    4 => format!("0.00000{}", rng.range(1_000_000_000_000, 9_999_999_999_999)),
                    _ => format!("0.000000{}", rng.range(100_000_000_000, 999_999_999_999)),
                }
            };
            Some(vec![
                price(rng, "0.00000005"),
                price(rng, "0.00000005"),
                rng.pick(&["16.666666666666666666", "1", "0.333333333333333333", "123.456789012345678901"]).to_string(),
                rng.pick(&["0.00009536743", "0.000000000000000007", "0.000123456789012345"]).to_string(),
                rng.pick(&["0.00009536743", "0.000000000000000007", "0.000123456789012345"]).to_string(),
                // cost unit limits: protocol values, or low enough for ordinary transactions to hit them
                rng.pick(&["100000000", "100000000", "3000000", "1500000"]).to_string(),
                rng.pick(&["50000000", "50000000", "200000", "120000", "60000"]).to_string(),
            ])
        } else {
            None
        };
        LCfg {
            n_steps: rng.range(20, if tier == Tier::Quick { 100 } else { 200 }) as usize,
            weights,
            fault_permille: if fault_free { 0 } else { *rng.pick(&[50u32, 150, 300]) },
            sweep_permille: if self.id == "C02" { *rng.pick(&[40u32, 80]) } else { 0 },
            scan_every: match self.id {
                "C04" | "C05" => {
                    if tier == Tier::Quick {
                        *rng.pick(&[0u32, 25])
                    } else {
                        *rng.pick(&[1u32, 5, 25])
                    }
                }
                _ => 0,
            },
            sweep_stride_target: 120,
            costing,
            fee_probe_permille: if self.id == "C06" { *rng.pick(&[50u32, 150]) } else { 0 },
        }
    }

    fn run(&self, cfg: &LCfg, mode: Mode<LStep>) -> RunOutcome<LStep> {
        let mut steps = Steps::new(mode);
        let tier = steps.tier();
        let mut ctx = RunCtx {
            node: Node::from_base(),
            view: View::new(),
            stats: Stats::default(),
            digest: 0,
        };
        let mut violation = None;
        let mut n = 0usize;
        loop {
            let step = steps.next(|rng| {
                if n >= cfg.n_steps + N_PARTIES + 1 {
                    return None;
                }
                if n < N_PARTIES + 1 {
                    // every party starts funded
                    return Some(LStep { actor: n as u8, body: Body::Fund, fee: Fee::Faucet, fault: Fault::None, tip_bp: 0 });
                }
                let mut s = gen_step(rng, &ctx.view, &ctx.node, &cfg.weights, cfg.fault_permille);
                if cfg.sweep_permille > 0 && rng.below(1000) < cfg.sweep_permille as u64 {
                    s.fault = Fault::Sweep;
                }
                if cfg.fee_probe_permille > 0 && rng.below(1000) < cfg.fee_probe_permille as u64 && !matches!(s.body, Body::Round { .. } | Body::Restart) {
                    s.fault = Fault::FeeProbe;
                }
                if self.id == "C49" && !matches!(s.body, Body::Round { .. } | Body::Restart) && rng.chance(1, 6) {
                    // two or three of the eight limit kinds per probed transaction
                    let mut mask = 0u16;
                    for _ in 0..rng.range(2, 3) {
                        mask |= 1 << rng.below(LIMIT_KINDS.len() as u64);
                    }
                    s.fault = Fault::LimitProbe(mask);
                }
                Some(s)
            });
            n += 1;
            let Some(step) = step else { break };
            let ix = steps.index();
            let sweep_this = step.fault == Fault::Sweep;
            if let Err((monitor, detail)) = self.do_step(cfg, &step, &mut ctx, sweep_this, tier) {
                let ours = monitor.starts_with(&format!("{}.", self.id.to_lowercase()));
                if ours {
                    violation = Some(Violation {
                        signature: monitor.clone(),
                        monitor,
                        step: ix,
                        detail,
                    });
                } else {
                    // an observation belonging to another property: logged, never a VIOLATION here
                    ctx.stats.bump(&format!("note.other_property.{}", monitor));
                }
                break;
            }
        }
        if violation.is_none() {
            if let Err((monitor, detail)) = self.scans(cfg, &mut ctx) {
                if monitor.starts_with(&format!("{}.", self.id.to_lowercase())) {
                    violation = Some(Violation {
                        signature: monitor.clone(),
                        monitor,
                        step: steps.taken.len().saturating_sub(1),
                        detail,
                    });
                } else {
                    ctx.stats.bump(&format!("note.other_property.{}", monitor));
                }
            }
        }
        ctx.stats.sim_time_ms = ctx.view.clock_ms.max(0) as u64;
        RunOutcome {
            steps: steps.taken,
            violation,
            stats: ctx.stats,
            digest: ctx.digest,
        }
    }

    fn simplify_step(&self, step: &LStep) -> Vec<LStep> {
        let mut v = vec![];
        if step.fault != Fault::None {
            let mut s = step.clone();
            s.fault = Fault::None;
            v.push(s);
        }
        if step.tip_bp != 0 {
            let mut s = step.clone();
            s.tip_bp = 0;
            v.push(s);
        }
        if step.fee != Fee::Faucet {
            let mut s = step.clone();
            s.fee = Fee::Faucet;
            v.push(s);
        }
        v
    }
}
