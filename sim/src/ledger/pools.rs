//! C41 — liquidity pools stay solvent and fair. One-, two- and multi-resource pools over
//! resources of random divisibility; seeded histories of contribute / redeem / repeated
//! contribute-then-redeem / protected deposit and withdraw by two parties, with injected
//! system errors and restarts. Oracle in exact integer arithmetic from the balances observed
//! in the store before and after every transaction.

use super::monitors::*;
use super::node::*;
use super::steps::{balance, View};
use crate::simkit::*;
use num_bigint::BigInt;
use num_traits::{Signed, Zero};
use radix_common::prelude::*;
use radix_engine::transaction::*;
use radix_engine_interface::blueprints::pool::*;
use radix_engine_interface::prelude::*;
use radix_transactions::prelude::*;
use serde::{Deserialize, Serialize};
use serde_json::json;
use std::collections::BTreeSet;

#[derive(Clone, Debug, Serialize, Deserialize)]
pub enum Step {
    /// creates the resources (one per divisibility, supply split between both parties) - always first
    Setup { divisibilities: Vec<u8>, supply: String },
    NewPool { resources: Vec<u8> },
    /// amounts are per pool resource, in pool resource order
    Contribute { pool: u8, actor: u8, amounts: Vec<String> },
    Redeem { pool: u8, actor: u8, amount: String },
    /// `rounds` contributions followed, in the same transaction, by the redemption of all the
    /// pool units they produced
    ContributeRedeem { pool: u8, actor: u8, rounds: Vec<Vec<String>> },
    ProtectedDeposit { pool: u8, actor: u8, res: u8, amount: String },
    ProtectedWithdraw { pool: u8, actor: u8, res: u8, amount: String, strategy: u8 },
    Restart,
}

#[derive(Clone, Debug, Serialize, Deserialize)]
pub struct Cfg {
    pub n_steps: usize,
    pub fault_permille: u32,
    /// 0 = small amounts around the unit of divisibility, 1 = mid, 2 = huge
    pub scale: u8,
}

pub struct C41;

struct Pool {
    addr: ComponentAddress,
    unit: ResourceAddress,
    /// (resource, divisibility, vault)
    res: Vec<(ResourceAddress, u8, NodeId)>,
    /// 1 = one-resource, 2 = two-resource, 3 = multi-resource blueprint
    kind: u8,
}

#[derive(Clone, Debug)]
struct Obs {
    reserves: Vec<BigInt>,
    supply: BigInt,
    /// per actor: balances of the pool resources, then of the pool unit
    holdings: Vec<(Vec<BigInt>, BigInt)>,
}

pub fn attos(d: Decimal) -> BigInt {
    let s = d.to_string();
    let neg = s.starts_with('-');
    let s = s.trim_start_matches('-');
    let (w, f) = match s.split_once('.') {
        Some((w, f)) => (w.to_string(), f.to_string()),
        None => (s.to_string(), String::new()),
    };
    let mut frac = f;
    while frac.len() < 18 {
        frac.push('0');
    }
    let v: BigInt = format!("{}{}", w, frac).parse().unwrap();
    if neg {
        -v
    } else {
        v
    }
}

fn owns(v: &ScryptoValue, out: &mut Vec<NodeId>) {
    match v {
        Value::Custom { value: ScryptoCustomValue::Own(o) } => out.push(o.0),
        Value::Tuple { fields } => fields.iter().for_each(|f| owns(f, out)),
        Value::Array { elements, .. } => elements.iter().for_each(|f| owns(f, out)),
        Value::Enum { fields, .. } => fields.iter().for_each(|f| owns(f, out)),
        Value::Map { entries, .. } => entries.iter().for_each(|(k, x)| {
            owns(k, out);
            owns(x, out)
        }),
        _ => {}
    }
}

fn unit_of(div: u8) -> BigInt {
    BigInt::from(10u64).pow(18 - div.min(18) as u32)
}

fn observe(node: &Node, view: &View, p: &Pool) -> Obs {
    Obs {
        reserves: p.res.iter().map(|(_, _, v)| attos(fungible_vault_balance(&node.db, v).unwrap_or(Decimal::ZERO))).collect(),
        supply: attos(pool_unit_supply(&node.db, &p.unit)),
        holdings: (0..2).map(|a| (p.res.iter().map(|(r, _, _)| attos(balance(node, view.parties[a].account, *r))).collect(), attos(balance(node, view.parties[a].account, p.unit)))).collect(),
    }
}

fn pool_unit_supply(db: &Db, unit: &ResourceAddress) -> Decimal {
    use radix_engine::blueprints::resource::*;
    field::<FungibleResourceManagerTotalSupplyFieldPayload>(db, unit.as_node_id(), MAIN_BASE_PARTITION, FungibleResourceManagerField::TotalSupply.field_index())
        .map(|p| p.fully_update_and_into_latest_version())
        .unwrap_or(Decimal::ZERO)
}

fn dec(s: &str) -> Option<Decimal> {
    Decimal::try_from(s).ok()
}

/// An amount that is a multiple of the resource's unit, related to `around` (attos).
fn gen_amount(rng: &mut Rng, around: &BigInt, div: u8, scale: u8) -> String {
    let unit = unit_of(div);
    let around_units: BigInt = around / &unit;
    let k: BigInt = match rng.below(12) {
        0 => BigInt::from(1),
        1 => BigInt::from(rng.range(2, 9)),
        2 => BigInt::from(rng.range(10, 1000)),
        3..=5 => &around_units / BigInt::from(*rng.pick(&[2u64, 3, 7, 10, 100, 1000, 1_000_000])),
        6 => around_units.clone(),
        7 => &around_units + BigInt::from(1),
        8 => (&around_units * BigInt::from(rng.range(1, 999))) / BigInt::from(1000),
        9 => BigInt::from(rng.next_u64()),
        _ => match scale {
            0 => BigInt::from(rng.range(1, 50)),
            1 => BigInt::from(rng.range(1, 1_000_000_000)),
            _ => BigInt::from(rng.next_u64()) * BigInt::from(rng.next_u64() >> 20),
        },
    };
    let k = if k.is_zero() { BigInt::from(1) } else { k };
    fmt_attos(&(k * unit))
}

fn fmt_attos(a: &BigInt) -> String {
    let one = BigInt::from(10u64).pow(18);
    let w = a / &one;
    let f = a % &one;
    format!("{}.{:0>18}", w, f.to_string())
}

impl World for C41 {
    type Step = Step;
    type Cfg = Cfg;
    fn property(&self) -> &'static str {
        "C41"
    }
    fn world(&self) -> &'static str {
        "ledger"
    }
    fn rule(&self) -> String {
        "Per run: 3-5 fungible resources of seeded divisibility (0..18), two parties holding them, one-, two- and multi-resource pools created over them (pool manager rule allow_all), and a seeded history of contribute / redeem / k contributions followed in the same transaction by the redemption of the units they produced / protected deposit / protected withdraw (all strategies), with amounts from one unit of divisibility to beyond the holdings, injected system errors (F5) and node restarts (F8). Oracle, in exact integers (attos) from balances read from the store before and after each transaction: (a) a redemption of u units pays per resource paid_i * supply <= u * reserve_i, burns exactly u, and pays out of the reserves only; (b) reserves are never negative and reserve change == -(account change) per resource for contribute/redeem (nothing lost: taken + change == offered); (c) a k-fold contribute followed immediately by redeeming the minted units leaves the actor with no more of any pool resource than before, when the pool had units outstanding or was empty (the documented 'dried-out pool' state - no units, dust reserves - is exempt: the first contributor gets the dust); (d) multi-resource contributions in the normal state take resources in the current reserve ratio within one unit of divisibility (+ the 1e-36 truncation of the implementation's precise decimals) and never skip a resource with a non-zero reserve while taking others; (e) a failed or fault-injected transaction leaves reserves and unit supply unchanged. evaluations = engine executions; distinct = distinct (pool arity, divisibilities, step kind, pool state class, outcome).".into()
    }
    fn assumptions(&self) -> Vec<String> {
        vec![
            "Pool manager rule is allow_all, so protected deposit / withdraw are part of the history (they skew ratios and dry pools out) but carry no oracle beyond conservation.".into(),
            "Only the latest pool package version (v1.1 logic after protocol updates) is exercised.".into(),
        ]
    }
    fn real_vs_stub(&self) -> serde_json::Value {
        json!({"real": ["pool package (one/two/multi resource pool blueprints)", "fungible resource manager, vaults, buckets, worktop, accounts", "engine, costing, transaction preparation"], "stub_or_ours": ["clients", "node loop", "integer oracle"]})
    }
    fn probes(&self) -> Vec<&'static str> {
        vec![
            "ok.Contribute.1", "ok.Contribute.2", "ok.Contribute.n", "ok.Redeem.1", "ok.Redeem.2", "ok.Redeem.n", "ok.ContributeRedeem", "ok.ProtectedDeposit", "ok.ProtectedWithdraw",
            "state.normal", "state.new", "state.dried_out", "state.one_sided", "contribute.with_change", "contribute.rounded_by_divisibility", "redeem.rounded_by_divisibility",
            "fault.inject_costing_error_fired", "fault.restart_fired", "notok.any",
        ]
    }
    fn budget(&self, tier: Tier) -> (u64, u64) {
        match tier {
            Tier::Quick => (1500, 45),
            Tier::Thorough => (30_000, 900),
        }
    }
    fn gen_cfg(&self, rng: &mut Rng, _tier: Tier, _run: u64) -> Cfg {
        Cfg { n_steps: rng.range(20, 80) as usize, fault_permille: *rng.pick(&[0u32, 0, 100, 250]), scale: rng.below(3) as u8 }
    }

    fn simplify_step(&self, step: &Step) -> Vec<Step> {
        match step {
            Step::ContributeRedeem { pool, actor, rounds } if rounds.len() > 1 => (0..rounds.len())
                .map(|i| {
                    let mut r = rounds.clone();
                    r.remove(i);
                    Step::ContributeRedeem { pool: *pool, actor: *actor, rounds: r }
                })
                .collect(),
            _ => vec![],
        }
    }

    fn run(&self, cfg: &Cfg, mode: Mode<Step>) -> RunOutcome<Step> {
        let mut steps = Steps::new(mode);
        let mut stats = Stats::default();
        let mut node = Node::from_base();
        let view = View::new();
        let mut resources: Vec<(ResourceAddress, u8)> = vec![];
        let mut pools: Vec<Pool> = vec![];
        let mut digest = 0u64;
        let mut violation = None;
        let mut n = 0usize;
        for a in 0..2 {
            let m = ManifestBuilder::new().lock_fee_from_faucet().get_free_xrd_from_faucet().try_deposit_entire_worktop_or_abort(view.parties[a].account, None).build();
            let nonce = node.next_nonce();
            if let Ok(exe) = TxSpec::new(m, nonce, btreeset![]).build(&node.validator) {
                if let Ok(r) = node.execute(&exe, &ExecOpts::default()) {
                    node.commit(&r);
                }
            }
        }
        let mut fault_rng = Rng::from_u64(cfg.n_steps as u64 ^ 0xC41);
        loop {
            let step = steps.next(|rng| {
                if n > cfg.n_steps {
                    return None;
                }
                if n == 0 {
                    let k = rng.range(3, 5) as usize;
                    let divisibilities = (0..k).map(|_| *rng.pick(&[0u8, 0, 1, 2, 6, 17, 18, 18])).collect();
                    let supply = match cfg.scale {
                        0 => "1000",
                        1 => "1000000000",
                        _ => "100000000000000000000000000",
                    };
                    return Some(Step::Setup { divisibilities, supply: supply.into() });
                }
                if pools.is_empty() || (pools.len() < 4 && rng.chance(1, 10)) {
                    let arity = *rng.pick(&[1usize, 2, 2, 3, 4]).min(&resources.len().max(1));
                    let mut ixs: Vec<u8> = (0..resources.len() as u8).collect();
                    rng.shuffle(&mut ixs);
                    ixs.truncate(arity);
                    // arity 1 and 2 use the dedicated blueprints; a leading 255 forces the multi-resource blueprint
                    if arity <= 2 && rng.chance(1, 4) {
                        ixs.insert(0, 255);
                    }
                    return Some(Step::NewPool { resources: ixs });
                }
                let pi = rng.below(pools.len() as u64) as usize;
                let p = &pools[pi];
                let o = observe(&node, &view, p);
                let actor = rng.below(2) as u8;
                let h = &o.holdings[actor as usize];
                let normal = !o.supply.is_zero();
                let amounts_for = |rng: &mut Rng| -> Vec<String> {
                    // either independent amounts or amounts near the current ratio
                    let near_ratio = normal && rng.chance(1, 2) && !o.reserves[0].is_zero();
                    let lead = gen_amount(rng, &h.0[0], p.res[0].1, cfg.scale);
                    let lead_attos = attos(dec(&lead).unwrap_or(Decimal::ONE));
                    p.res
                        .iter()
                        .enumerate()
                        .map(|(i, (_, d, _))| {
                            if i == 0 {
                                lead.clone()
                            } else if near_ratio {
                                let want = &lead_attos * &o.reserves[i] / &o.reserves[0];
                                let u = unit_of(*d);
                                let mut k = &want / &u;
                                match rng.below(4) {
                                    0 => k += 1,
                                    1 if k > BigInt::from(1) => k -= 1,
                                    _ => {}
                                }
                                if k.is_zero() {
                                    k = BigInt::from(1);
                                }
                                fmt_attos(&(k * u))
                            } else {
                                gen_amount(rng, &h.0[i], *d, cfg.scale)
                            }
                        })
                        .collect()
                };
                Some(match rng.below(20) {
                    0..=5 => Step::Contribute { pool: pi as u8, actor, amounts: amounts_for(rng) },
                    6..=9 => Step::Redeem { pool: pi as u8, actor, amount: gen_amount(rng, &h.1, 18, cfg.scale) },
                    10..=14 => {
                        let k = rng.range(1, 4) as usize;
                        Step::ContributeRedeem { pool: pi as u8, actor, rounds: (0..k).map(|_| amounts_for(rng)).collect() }
                    }
                    15..=16 => {
                        let ri = rng.below(p.res.len() as u64) as usize;
                        Step::ProtectedDeposit { pool: pi as u8, actor, res: ri as u8, amount: gen_amount(rng, &h.0[ri], p.res[ri].1, cfg.scale) }
                    }
                    17..=18 => {
                        let ri = rng.below(p.res.len() as u64) as usize;
                        // not a multiple of the unit on purpose for the rounding strategies
                        let mut amt = attos(dec(&gen_amount(rng, &o.reserves[ri], p.res[ri].1, cfg.scale)).unwrap_or(Decimal::ONE));
                        let strategy = rng.below(3) as u8;
                        if strategy > 0 && rng.chance(1, 2) {
                            amt += BigInt::from(rng.range(1, 999));
                        }
                        Step::ProtectedWithdraw { pool: pi as u8, actor, res: ri as u8, amount: fmt_attos(&amt), strategy }
                    }
                    _ => Step::Restart,
                })
            });
            n += 1;
            let Some(step) = step else { break };
            let ix = steps.index();
            let mk = |monitor: &str, detail: String| Violation { monitor: monitor.into(), step: ix, detail, signature: monitor.into() };
            let fault = if fault_rng.below(1000) < cfg.fault_permille as u64 { Some(fault_rng.range(1, 4000)) } else { None };
            let mut run_tx = |node: &mut Node, m: TransactionManifestV1, actor: usize, stats: &mut Stats, fault: Option<u64>| -> Option<(TransactionReceipt, bool)> {
                let nonce = node.next_nonce();
                let exe = TxSpec::new(m, nonce, btreeset![view.parties[actor].proof.clone()]).build(&node.validator).ok()?;
                let mut o = ExecOpts::default();
                o.inject_at = fault;
                o.kernel_trace = std::env::var("VERIF_KERNEL_TRACE").is_ok();
                stats.evaluations += 1;
                let r = node.execute(&exe, &o).ok()?;
                let injected = fault.is_some() && super::injection_fired(&r);
                if injected {
                    stats.bump("fault.inject_costing_error_fired");
                }
                node.commit(&r);
                Some((r, injected))
            };
            let ok = |r: &TransactionReceipt| matches!(&r.result, TransactionResult::Commit(c) if matches!(c.outcome, TransactionOutcome::Success(_)));
            let arity_tag = |p: &Pool| match p.res.len() {
                1 => "1",
                2 => "2",
                _ => "n",
            };
            match step {
                Step::Restart => {
                    node.restart();
                    stats.bump("fault.restart_fired");
                }
                Step::Setup { divisibilities, supply } => {
                    if !resources.is_empty() {
                        continue;
                    }
                    let Some(supply) = dec(&supply) else { continue };
                    for d in divisibilities {
                        let m = ManifestBuilder::new()
                            .lock_fee_from_faucet()
                            .create_fungible_resource(OwnerRole::None, true, d, FungibleResourceRoles::default(), metadata!(), Some(supply))
                            .try_deposit_entire_worktop_or_abort(view.parties[0].account, None)
                            .build();
                        let Some((r, _)) = run_tx(&mut node, m, 0, &mut stats, None) else { continue };
                        let TransactionResult::Commit(c) = &r.result else { continue };
                        let Some(addr) = c.new_resource_addresses().first().copied() else { continue };
                        let half = supply.checked_div(Decimal::from(2u32)).unwrap().checked_round(d, RoundingMode::ToZero).unwrap();
                        let m = ManifestBuilder::new().lock_fee_from_faucet().withdraw_from_account(view.parties[0].account, addr, half).try_deposit_entire_worktop_or_abort(view.parties[1].account, None).build();
                        run_tx(&mut node, m, 0, &mut stats, None);
                        resources.push((addr, d));
                    }
                }
                Step::NewPool { resources: ixs } => {
                    let force_multi = ixs.first() == Some(&255);
                    let ixs: Vec<u8> = ixs.into_iter().filter(|x| *x != 255).collect();
                    let set: BTreeSet<u8> = ixs.iter().copied().collect();
                    if ixs.is_empty() || set.len() != ixs.len() || ixs.iter().any(|i| *i as usize >= resources.len()) {
                        continue;
                    }
                    let rs: Vec<(ResourceAddress, u8)> = ixs.iter().map(|i| resources[*i as usize]).collect();
                    let b = ManifestBuilder::new().lock_fee_from_faucet();
                    let (m, kind) = if rs.len() == 1 && !force_multi {
                        (
                            b.call_function(
                                POOL_PACKAGE,
                                ONE_RESOURCE_POOL_BLUEPRINT,
                                ONE_RESOURCE_POOL_INSTANTIATE_IDENT,
                                OneResourcePoolInstantiateManifestInput { owner_role: OwnerRole::None.into(), pool_manager_rule: rule!(allow_all).into(), resource_address: rs[0].0.into(), address_reservation: None },
                            )
                            .build(),
                            1u8,
                        )
                    } else if rs.len() == 2 && !force_multi {
                        (
                            b.call_function(
                                POOL_PACKAGE,
                                TWO_RESOURCE_POOL_BLUEPRINT,
                                TWO_RESOURCE_POOL_INSTANTIATE_IDENT,
                                TwoResourcePoolInstantiateManifestInput { owner_role: OwnerRole::None.into(), pool_manager_rule: rule!(allow_all).into(), resource_addresses: (rs[0].0.into(), rs[1].0.into()), address_reservation: None },
                            )
                            .build(),
                            2,
                        )
                    } else {
                        (
                            b.call_function(
                                POOL_PACKAGE,
                                MULTI_RESOURCE_POOL_BLUEPRINT,
                                MULTI_RESOURCE_POOL_INSTANTIATE_IDENT,
                                MultiResourcePoolInstantiateManifestInput { owner_role: OwnerRole::None.into(), pool_manager_rule: rule!(allow_all).into(), resource_addresses: rs.iter().map(|(a, _)| (*a).into()).collect(), address_reservation: None },
                            )
                            .build(),
                            3,
                        )
                    };
                    let Some((r, _)) = run_tx(&mut node, m, 0, &mut stats, None) else { continue };
                    let TransactionResult::Commit(c) = &r.result else { continue };
                    let (Some(addr), Some(unit)) = (c.new_component_addresses().first().copied(), c.new_resource_addresses().first().copied()) else { continue };
                    let mut vaults = vec![];
                    if let Some(state) = field::<ScryptoValue>(&node.db, addr.as_node_id(), MAIN_BASE_PARTITION, 0) {
                        owns(&state, &mut vaults);
                    }
                    let mut res = vec![];
                    for (ra, d) in &rs {
                        if let Some(v) = vaults.iter().find(|v| outer_resource(&node.db, v) == Some(*ra)) {
                            res.push((*ra, *d, *v));
                        }
                    }
                    if res.len() != rs.len() {
                        violation = Some(mk("c41.harness_pool_vaults_not_found", format!("pool {:?}: {} vaults found for {} resources", addr, res.len(), rs.len())));
                        break;
                    }
                    pools.push(Pool { addr, unit, res, kind });
                }
                Step::Contribute { .. } | Step::Redeem { .. } | Step::ContributeRedeem { .. } | Step::ProtectedDeposit { .. } | Step::ProtectedWithdraw { .. } => {
                    let (pi, actor) = match &step {
                        Step::Contribute { pool, actor, .. } | Step::Redeem { pool, actor, .. } | Step::ContributeRedeem { pool, actor, .. } | Step::ProtectedDeposit { pool, actor, .. } | Step::ProtectedWithdraw { pool, actor, .. } => (*pool as usize, (*actor as usize) % 2),
                        _ => unreachable!(),
                    };
                    let Some(p) = pools.get(pi) else { continue };
                    let acct = view.parties[actor].account;
                    let contribute = |mut b: ManifestBuilder, amounts: &Vec<String>, tag: usize| -> Option<ManifestBuilder> {
                        if amounts.len() != p.res.len() {
                            return None;
                        }
                        let mut names = vec![];
                        for (i, a) in amounts.iter().enumerate() {
                            let a = dec(a)?;
                            let name = format!("b{}_{}", tag, i);
                            b = b.withdraw_from_account(acct, p.res[i].0, a).take_from_worktop(p.res[i].0, a, &name);
                            names.push(name);
                        }
                        Some(b.with_name_lookup(|b, l| {
                            let buckets: Vec<ManifestBucket> = names.iter().map(|n| l.bucket(n)).collect();
                            match p.kind {
                                1 => b.call_method(p.addr, "contribute", manifest_args!(buckets[0])),
                                2 => b.call_method(p.addr, "contribute", manifest_args!((buckets[0], buckets[1]))),
                                _ => b.call_method(p.addr, "contribute", manifest_args!(buckets)),
                            }
                        }))
                    };
                    let b = ManifestBuilder::new().lock_fee_from_faucet();
                    let (m, kind_code, offered): (Option<TransactionManifestV1>, u64, Vec<BigInt>) = match &step {
                        Step::Contribute { amounts, .. } => {
                            let offered = amounts.iter().map(|a| dec(a).map(attos).unwrap_or_default()).collect();
                            (contribute(b, amounts, 0).map(|b| b.try_deposit_entire_worktop_or_abort(acct, None).build()), 1, offered)
                        }
                        Step::Redeem { amount, .. } => (
                            dec(amount).map(|a| {
                                b.withdraw_from_account(acct, p.unit, a)
                                    .take_all_from_worktop(p.unit, "u")
                                    .with_name_lookup(|b, l| b.call_method(p.addr, "redeem", manifest_args!(l.bucket("u"))))
                                    .try_deposit_entire_worktop_or_abort(acct, None)
                                    .build()
                            }),
                            2,
                            vec![],
                        ),
                        Step::ContributeRedeem { rounds, .. } => {
                            let mut bb = Some(b);
                            for (t, amounts) in rounds.iter().enumerate() {
                                bb = bb.and_then(|b| contribute(b, amounts, t));
                            }
                            (
                                bb.map(|b| {
                                    b.take_all_from_worktop(p.unit, "u")
                                        .with_name_lookup(|b, l| b.call_method(p.addr, "redeem", manifest_args!(l.bucket("u"))))
                                        .try_deposit_entire_worktop_or_abort(acct, None)
                                        .build()
                                }),
                                3,
                                vec![],
                            )
                        }
                        Step::ProtectedDeposit { res, amount, .. } => {
                            let ri = *res as usize % p.res.len();
                            (
                                dec(amount).map(|a| {
                                    b.withdraw_from_account(acct, p.res[ri].0, a)
                                        .take_all_from_worktop(p.res[ri].0, "d")
                                        .with_name_lookup(|b, l| b.call_method(p.addr, "protected_deposit", manifest_args!(l.bucket("d"))))
                                        .build()
                                }),
                                4,
                                vec![],
                            )
                        }
                        Step::ProtectedWithdraw { res, amount, strategy, .. } => {
                            let ri = *res as usize % p.res.len();
                            let ws = match strategy % 3 {
                                0 => WithdrawStrategy::Exact,
                                1 => WithdrawStrategy::Rounded(RoundingMode::ToZero),
                                _ => WithdrawStrategy::Rounded(RoundingMode::AwayFromZero),
                            };
                            (
                                dec(amount).map(|a| {
                                    if p.kind == 1 { b.call_method(p.addr, "protected_withdraw", manifest_args!(a, ws)) } else { b.call_method(p.addr, "protected_withdraw", manifest_args!(p.res[ri].0, a, ws)) }
                                        .try_deposit_entire_worktop_or_abort(acct, None)
                                        .build()
                                }),
                                5,
                                vec![],
                            )
                        }
                        _ => unreachable!(),
                    };
                    let Some(m) = m else { continue };
                    let pre = observe(&node, &view, p);
                    let all_zero = pre.reserves.iter().all(|r| r.is_zero());
                    let any_zero = pre.reserves.iter().any(|r| r.is_zero());
                    let state_class = match (pre.supply.is_zero(), all_zero, any_zero) {
                        (true, true, _) => "new",
                        (true, false, _) => "dried_out",
                        (false, true, _) => "units_without_reserves",
                        (false, false, true) => "one_sided",
                        (false, false, false) => "normal",
                    };
                    let Some((r, injected)) = run_tx(&mut node, m, actor, &mut stats, fault) else { continue };
                    let success = ok(&r);
                    let post = observe(&node, &view, p);
                    let other = 1 - actor;
                    let divs_code = p.res.iter().fold(0u64, |a, (_, d, _)| a * 19 + *d as u64);
                    stats.distinct.insert(prng::mix(prng::mix(p.kind as u64 * 8 + kind_code, divs_code), prng::mix(prng::fnv64(state_class.as_bytes()), success as u64)));
                    digest = prng::mix(digest, prng::fnv64(format!("{:?}", post).as_bytes()));
                    let describe = |pre: &Obs, post: &Obs| format!("pool kind {} divisibilities {:?} state {}; before: reserves {:?} unit supply {} actor holds {:?} units {}; after: reserves {:?} unit supply {} actor holds {:?} units {}", p.kind, p.res.iter().map(|x| x.1).collect::<Vec<_>>(), state_class, pre.reserves, pre.supply, pre.holdings[actor].0, pre.holdings[actor].1, post.reserves, post.supply, post.holdings[actor].0, post.holdings[actor].1);
                    // nobody else's holdings move, ever
                    if pre.holdings[other].0 != post.holdings[other].0 || pre.holdings[other].1 != post.holdings[other].1 {
                        violation = Some(mk("c41.bystander_holdings_changed", format!("step {:?}: {}", step, describe(&pre, &post))));
                        break;
                    }
                    if std::env::var("VERIF_DEBUG").is_ok() {
                        let why = match &r.result {
                            TransactionResult::Commit(c) => format!("{:?}", c.outcome),
                            TransactionResult::Reject(r) => format!("{:?}", r.reason),
                            TransactionResult::Abort(a) => format!("{:?}", a.reason),
                        };
                        eprintln!("DEBUG {:?} -> {} | {}", step, &why[..why.len().min(300)], describe(&pre, &post));
                    }
                    if !success {
                        stats.bump("notok.any");
                        if pre.reserves != post.reserves || pre.supply != post.supply || pre.holdings[actor].0 != post.holdings[actor].0 || pre.holdings[actor].1 != post.holdings[actor].1 {
                            violation = Some(mk("c41.failed_tx_changed_pool", format!("step {:?} failed (injected: {}) but {}", step, injected, describe(&pre, &post))));
                            break;
                        }
                        continue;
                    }
                    stats.bump(&format!("state.{}", state_class));
                    // conservation between the actor and the reserves (nothing lost, nothing created)
                    let mut lost = None;
                    for i in 0..p.res.len() {
                        let d_res = &post.reserves[i] - &pre.reserves[i];
                        let d_hold = &post.holdings[actor].0[i] - &pre.holdings[actor].0[i];
                        if !(&d_res + &d_hold).is_zero() {
                            lost = Some(i);
                        }
                        if post.reserves[i].is_negative() {
                            lost = Some(i);
                        }
                    }
                    if let Some(i) = lost {
                        violation = Some(mk("c41.resources_lost_or_created", format!("step {:?}: resource #{}: reserve change + account change != 0 (or negative reserve): {}", step, i, describe(&pre, &post))));
                        break;
                    }
                    let d_units = &post.holdings[actor].1 - &pre.holdings[actor].1;
                    let d_supply = &post.supply - &pre.supply;
                    if d_units != d_supply {
                        violation = Some(mk("c41.unit_supply_vs_holdings", format!("step {:?}: unit supply changed by {} but the actor's units by {}: {}", step, d_supply, d_units, describe(&pre, &post))));
                        break;
                    }
                    match &step {
                        Step::Contribute { .. } => {
                            stats.bump(&format!("ok.Contribute.{}", arity_tag(p)));
                            let taken: Vec<BigInt> = (0..p.res.len()).map(|i| &post.reserves[i] - &pre.reserves[i]).collect();
                            if taken.iter().any(|t| t.is_negative()) || taken.iter().zip(offered.iter()).any(|(t, o)| t > o) || !d_supply.is_positive() {
                                violation = Some(mk("c41.contribution_took_more_than_offered", format!("step {:?}: taken {:?} offered {:?}: {}", step, taken, offered, describe(&pre, &post))));
                                break;
                            }
                            if taken.iter().zip(offered.iter()).any(|(t, o)| t < o) {
                                stats.bump("contribute.with_change");
                            }
                            // "in the pool's current ratio": a resource with a non-zero reserve is never skipped
                            // altogether while others are taken (a zero share is not a ratio)
                            if p.res.len() >= 2 && !pre.supply.is_zero() {
                                if let Some(i) = (0..p.res.len()).find(|i| !pre.reserves[*i].is_zero() && taken[*i].is_zero() && taken.iter().any(|t| t.is_positive())) {
                                    violation = Some(mk(
                                        "c41.contribution_skips_a_reserve",
                                        format!("step {:?}: nothing was taken of resource #{} (reserve {}) although {:?} was taken of the others and pool units were minted: {}", step, i, pre.reserves[i], taken, describe(&pre, &post)),
                                    ));
                                    break;
                                }
                            }
                            if state_class == "normal" && p.res.len() >= 2 {
                                // (d) taken amounts follow the reserve ratio within one unit of divisibility
                                let mut bad = None;
                                for i in 0..p.res.len() {
                                    for j in (i + 1)..p.res.len() {
                                        let (ri, rj) = (&pre.reserves[i], &pre.reserves[j]);
                                        let lhs = (&taken[i] * rj - &taken[j] * ri).abs();
                                        let slack = |r: &BigInt, d: u8| unit_of(d) + r / BigInt::from(10u64).pow(15).pow(2) + BigInt::from(2);
                                        let tol = slack(ri, p.res[i].1) * rj + slack(rj, p.res[j].1) * ri;
                                        if lhs > tol {
                                            bad = Some((i, j));
                                        }
                                    }
                                }
                                if let Some((i, j)) = bad {
                                    violation = Some(mk("c41.contribution_not_in_reserve_ratio", format!("step {:?}: taken {:?}; resources #{} and #{} are not taken in the reserve ratio within one unit of divisibility: {}", step, taken, i, j, describe(&pre, &post))));
                                    break;
                                }
                                for i in 0..p.res.len() {
                                    if !(&taken[i] % unit_of(p.res[i].1)).is_zero() {
                                        stats.bump("note.taken_not_multiple_of_unit");
                                    }
                                }
                            }
                        }
                        Step::Redeem { amount, .. } => {
                            stats.bump(&format!("ok.Redeem.{}", arity_tag(p)));
                            let u = attos(dec(amount).unwrap());
                            if -&d_units != u {
                                violation = Some(mk("c41.redeem_burned_other_amount", format!("step {:?}: {} units handed in, unit supply changed by {}: {}", step, u, d_supply, describe(&pre, &post))));
                                break;
                            }
                            let mut bad = None;
                            for i in 0..p.res.len() {
                                let paid = &pre.reserves[i] - &post.reserves[i];
                                if paid.is_negative() || &paid * &pre.supply > &u * &pre.reserves[i] {
                                    bad = Some((i, paid.clone()));
                                }
                                if !((&u * &pre.reserves[i]) % (&pre.supply * unit_of(p.res[i].1))).is_zero() {
                                    stats.bump("redeem.rounded_by_divisibility");
                                }
                            }
                            if let Some((i, paid)) = bad {
                                violation = Some(mk("c41.redeem_paid_more_than_pro_rata", format!("step {:?}: resource #{} paid {} attos for {} of {} units of a reserve of {}: {}", step, i, paid, u, pre.supply, pre.reserves[i], describe(&pre, &post))));
                                break;
                            }
                        }
                        Step::ContributeRedeem { rounds, .. } => {
                            stats.bump("ok.ContributeRedeem");
                            if !d_supply.is_zero() {
                                violation = Some(mk("c41.unit_supply_vs_holdings", format!("step {:?}: all minted units were redeemed but the supply changed by {}: {}", step, d_supply, describe(&pre, &post))));
                                break;
                            }
                            if state_class == "dried_out" {
                                stats.bump("note.dried_out_pool_first_contributor_gets_dust");
                            } else {
                                let gained: Vec<usize> = (0..p.res.len()).filter(|i| post.holdings[actor].0[*i] > pre.holdings[actor].0[*i]).collect();
                                // (gaining one resource while losing a little of another is not told apart:
                                // 1 whole token gained for 1 atto lost is a gain all the same)
                                let signature = format!("c41.contribute_then_redeem_gained.kind{}.{}", p.kind, if rounds.len() == 1 { "single" } else { "repeated" });
                                if !gained.is_empty() && stats.tolerate(&signature) {
                                    // recorded known finding: counted, the run goes on
                                } else if !gained.is_empty() {
                                    violation = Some(Violation {
                                        monitor: "c41.contribute_then_redeem_gained".into(),
                                        step: ix,
                                        detail: format!("{} contribution(s) followed immediately by redeeming the minted units left the actor with more of resource(s) {:?} than before: {}; step {:?}", rounds.len(), gained, describe(&pre, &post), step),
                                        signature,
                                    });
                                    break;
                                }
                                if (0..p.res.len()).any(|i| post.holdings[actor].0[i] < pre.holdings[actor].0[i]) {
                                    stats.bump("contribute.rounded_by_divisibility");
                                }
                            }
                        }
                        Step::ProtectedDeposit { .. } => {
                            stats.bump("ok.ProtectedDeposit");
                            if !d_supply.is_zero() {
                                violation = Some(mk("c41.unit_supply_vs_holdings", format!("step {:?} changed the unit supply: {}", step, describe(&pre, &post))));
                                break;
                            }
                        }
                        Step::ProtectedWithdraw { .. } => {
                            stats.bump("ok.ProtectedWithdraw");
                            if !d_supply.is_zero() {
                                violation = Some(mk("c41.unit_supply_vs_holdings", format!("step {:?} changed the unit supply: {}", step, describe(&pre, &post))));
                                break;
                            }
                        }
                        _ => {}
                    }
                }
            }
        }
        RunOutcome { steps: steps.taken, violation, stats, digest }
    }
}
