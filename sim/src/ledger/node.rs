//! The simulated node: bootstrap (genesis + all protocol updates, real code), execute (real
//! engine, optionally with an injected costing error or overridden limits), commit (ours,
//! explicit), restart, consensus driver. Everything the outside world decides is a step.

use crate::simkit::*;
use radix_common::prelude::*;
use radix_engine::kernel::kernel::KernelInit;
use radix_engine::system::system_callback::SystemInit;
use radix_engine::system::system_db_reader::SystemDatabaseReader;
use radix_engine::transaction::*;
use radix_transactions::validation::TransactionValidator;
use radix_engine::updates::*;
use radix_engine::vm::*;
use radix_engine_interface::prelude::*;
use radix_substate_store_impls::memory_db::InMemorySubstateDatabase;
use radix_substate_store_interface::db_key_mapper::*;
use radix_substate_store_interface::interface::*;
use radix_transactions::prelude::*;
use scrypto_test::ledger_simulator::InjectCostingErrorInit;
use std::sync::OnceLock;

pub type Events = Vec<(EventTypeIdentifier, Vec<u8>)>;

#[derive(Clone)]
pub struct BaseState {
    pub db: InMemorySubstateDatabase,
    pub events: Vec<Events>,
    /// components of the pre-published royalties package (empty if publishing failed)
    pub royalty_components: Vec<ComponentAddress>,
}

static BASE: OnceLock<BaseState> = OnceLock::new();

/// Genesis + every protocol update up to the latest, executed once per process by the real
/// protocol executor; runs start from a clone of the resulting store.
pub fn base_state() -> &'static BaseState {
    BASE.get_or_init(|| {
        struct Hooks {
            events: Vec<Events>,
        }
        impl ProtocolUpdateExecutionHooks for Hooks {
            fn on_transaction_executed(&mut self, event: OnProtocolTransactionExecuted) {
                let OnProtocolTransactionExecuted { receipt, .. } = event;
                self.events
                    .push(receipt.expect_commit_success().application_events.clone());
            }
        }
        let mut db = InMemorySubstateDatabase::standard();
        let mut hooks = Hooks { events: vec![] };
        let vm = VmModules::default();
        ProtocolBuilder::for_simulator()
            .from_bootstrap_to_latest()
            .commit_each_protocol_update_advanced(&mut db, &mut hooks, &vm);
        // infrastructure for royalty flows: the repository's prebuilt `royalties` package (the one its
        // own scenarios publish) with three components (no / XRD / USD component royalties)
        let validator = TransactionValidator::new(&db, &network());
        let mut node = Node { db, vm: VmModules::default(), validator, events: hooks.events, nonce: 100, free_credit_used: false, commits: 0 };
        let mut royalty_components = vec![];
        let mut run = |node: &mut Node, m: TransactionManifestV1| -> Option<TransactionReceipt> {
            let nonce = node.next_nonce();
            let exe = TxSpec::new(m, nonce, btreeset![]).build(&node.validator).ok()?;
            let r = node.execute(&exe, &ExecOpts::default()).ok()?;
            node.commit(&r);
            Some(r)
        };
        let code = include_bytes!("/repo/radix-transaction-scenarios/assets/royalties.wasm").to_vec();
        let definition: Option<radix_engine_interface::blueprints::package::PackageDefinition> = manifest_decode::<radix_engine::blueprints::package::ManifestPackageDefinition>(include_bytes!("/repo/radix-transaction-scenarios/assets/royalties.rpd"))
            .ok()
            .and_then(|d| d.try_into_typed().ok());
        if let Some(definition) = definition {
            let m = ManifestBuilder::new().lock_fee_from_faucet().publish_package_advanced(None, code, definition, MetadataInit::default(), OwnerRole::None).build();
            let pkg = run(&mut node, m).and_then(|r| match &r.result {
                TransactionResult::Commit(c) => c.new_package_addresses().first().copied(),
                _ => None,
            });
            if let Some(pkg) = pkg {
                let m = ManifestBuilder::new()
                    .lock_fee_from_faucet()
                    .call_function(pkg, "RoyaltiesBp", "new", manifest_args!())
                    .call_function(pkg, "RoyaltiesBp", "new", manifest_args!())
                    .call_function(pkg, "RoyaltiesBp", "new", manifest_args!())
                    .build();
                if let Some(r) = run(&mut node, m) {
                    if let TransactionResult::Commit(c) = &r.result {
                        royalty_components = c.new_component_addresses().iter().copied().collect();
                    }
                }
                if royalty_components.len() == 3 {
                    let mut b = ManifestBuilder::new().lock_fee_from_faucet();
                    for (i, comp) in royalty_components.iter().enumerate() {
                        for (j, method) in ["method_with_no_package_royalty", "method_with_xrd_package_royalty", "method_with_usd_package_royalty"].iter().enumerate() {
                            let amount = match i {
                                0 => RoyaltyAmount::Free,
                                1 => RoyaltyAmount::Xrd(Decimal::from(17u32 + j as u32)),
                                _ => RoyaltyAmount::Usd(Decimal::from(2u32 + j as u32)),
                            };
                            b = b.set_component_royalty(*comp, *method, amount);
                        }
                    }
                    run(&mut node, b.build());
                }
            }
        }
        BaseState {
            db: node.db,
            events: node.events,
            royalty_components,
        }
    })
}

/// Execution fault / configuration attached to one execution.
#[derive(Clone, Debug, Default)]
pub struct ExecOpts {
    /// F5: injected system error at the k-th costing call (None = no injection)
    pub inject_at: Option<u64>,
    /// F6: execution cost unit limit override
    pub cost_unit_limit: Option<u32>,
    pub costing_parameters: Option<CostingParameters>,
    pub limit_parameters: Option<LimitParameters>,
    /// F7
    pub abort_when_loan_repaid: bool,
    pub kernel_trace: bool,
    pub cost_breakdown: bool,
    pub execution_trace: Option<usize>,
    pub debug_information: bool,
    pub system_tx: bool,
}

pub struct Node {
    pub db: InMemorySubstateDatabase,
    pub vm: DefaultVmModules,
    pub validator: TransactionValidator,
    /// application events of every committed transaction since genesis (for the event replay)
    pub events: Vec<Events>,
    pub nonce: u32,
    pub free_credit_used: bool,
    pub commits: u64,
}

pub fn network() -> NetworkDefinition {
    NetworkDefinition::simulator()
}

impl Node {
    pub fn from_base() -> Self {
        let base = base_state();
        let db = base.db.clone();
        let validator = TransactionValidator::new(&db, &network());
        Node {
            db,
            vm: VmModules::default(),
            validator,
            events: base.events.clone(),
            nonce: 1000,
            free_credit_used: false,
            commits: 0,
        }
    }

    /// A node bootstrapped from a custom genesis (per-run swarm configuration), then all protocol
    /// updates up to the latest, by the real protocol executor.
    pub fn from_genesis(settings: BabylonSettings) -> Self {
        struct Hooks {
            events: Vec<Events>,
        }
        impl ProtocolUpdateExecutionHooks for Hooks {
            fn on_transaction_executed(&mut self, event: OnProtocolTransactionExecuted) {
                let OnProtocolTransactionExecuted { receipt, .. } = event;
                self.events
                    .push(receipt.expect_commit_success().application_events.clone());
            }
        }
        let mut db = InMemorySubstateDatabase::standard();
        let mut hooks = Hooks { events: vec![] };
        let vm = VmModules::default();
        ProtocolBuilder::for_simulator()
            .configure_babylon(|_| settings)
            .from_bootstrap_to_latest()
            .commit_each_protocol_update_advanced(&mut db, &mut hooks, &vm);
        let validator = TransactionValidator::new(&db, &network());
        Node {
            db,
            vm,
            validator,
            events: hooks.events,
            nonce: 1000,
            free_credit_used: false,
            commits: 0,
        }
    }

    /// F8 restart: every in-memory component is dropped and rebuilt from the store.
    pub fn restart(&mut self) {
        self.vm = VmModules::default();
        self.validator = TransactionValidator::new(&self.db, &network());
    }

    pub fn next_nonce(&mut self) -> u32 {
        self.nonce += 1;
        self.nonce
    }

    pub fn config(opts: &ExecOpts) -> ExecutionConfig {
        let mut cfg = if opts.system_tx {
            ExecutionConfig::for_system_transaction(network())
        } else {
            ExecutionConfig::for_notarized_transaction(network())
        };
        cfg.enable_kernel_trace = opts.kernel_trace;
        cfg.enable_cost_breakdown = opts.cost_breakdown;
        cfg.execution_trace = opts.execution_trace;
        cfg.enable_debug_information = opts.debug_information;
        let mut so = cfg.system_overrides.clone().unwrap_or_default();
        if let Some(cp) = &opts.costing_parameters {
            so.costing_parameters = Some(cp.clone());
        }
        if let Some(limit) = opts.cost_unit_limit {
            let mut cp = so
                .costing_parameters
                .clone()
                .unwrap_or_else(CostingParameters::latest);
            cp.execution_cost_unit_limit = limit;
            so.costing_parameters = Some(cp);
        }
        if let Some(lp) = &opts.limit_parameters {
            so.limit_parameters = Some(lp.clone());
        }
        so.abort_when_loan_repaid = opts.abort_when_loan_repaid;
        cfg.system_overrides = Some(so);
        cfg
    }

    /// Executes without committing. A panic of the engine is returned as Err (C11).
    pub fn execute(&self, exe: &ExecutableTransaction, opts: &ExecOpts) -> Result<TransactionReceipt, String> {
        let cfg = Self::config(opts);
        Self::execute_on(&self.db, &self.vm, exe, &cfg, opts.inject_at)
    }

    pub fn execute_on<D: SubstateDatabase>(
        db: &D,
        vm: &DefaultVmModules,
        exe: &ExecutableTransaction,
        cfg: &ExecutionConfig,
        inject_at: Option<u64>,
    ) -> Result<TransactionReceipt, String> {
        catch_quiet(|| match inject_at {
            None => execute_transaction(db, vm, cfg, exe),
            Some(k) => {
                let vm_init = VmInit::load(db, vm);
                let system_init = InjectCostingErrorInit {
                    system_input: SystemInit::load(db, cfg.clone(), vm_init),
                    error_after_count: k,
                };
                KernelInit::load(db, system_init).execute(exe)
            }
        })
    }

    pub fn commit(&mut self, receipt: &TransactionReceipt) {
        if let TransactionResult::Commit(c) = &receipt.result {
            let du = c.state_updates.create_database_updates();
            self.db.commit(&du);
            self.events.push(c.application_events.clone());
            self.commits += 1;
        }
    }

    pub fn reader(&self) -> SystemDatabaseReader<'_, InMemorySubstateDatabase> {
        SystemDatabaseReader::new(&self.db)
    }
}

/// Builds an executable from a V1 manifest with full control over the execution context.
pub struct TxSpec {
    pub manifest: TransactionManifestV1,
    pub nonce: u32,
    pub proofs: BTreeSet<NonFungibleGlobalId>,
    pub tip: TipSpecifier,
    pub free_credit: Decimal,
    pub epoch_range: Option<EpochRange>,
    pub nullifications: Vec<IntentHashNullification>,
    pub timestamp_range: Option<ProposerTimestampRange>,
    pub disable_limits_and_costing: bool,
}

impl TxSpec {
    pub fn new(manifest: TransactionManifestV1, nonce: u32, proofs: BTreeSet<NonFungibleGlobalId>) -> Self {
        TxSpec {
            manifest,
            nonce,
            proofs,
            tip: TipSpecifier::None,
            free_credit: Decimal::ZERO,
            epoch_range: None,
            nullifications: vec![],
            timestamp_range: None,
            disable_limits_and_costing: false,
        }
    }

    pub fn build(self, validator: &TransactionValidator) -> Result<ExecutableTransaction, String> {
        let unique_hash = hash(format!("verif-sim transaction: {}", self.nonce));
        let n_proofs = self.proofs.len();
        let t = TestTransaction::new_v1(self.manifest, unique_hash, self.proofs);
        let prepared = t
            .prepare(validator.preparation_settings())
            .map_err(|e| format!("prepare: {:?}", e))?;
        let PreparedTestTransaction::V1(intent) = prepared else {
            return Err("not v1".into());
        };
        let payload_size =
            intent.encoded_instructions.len() + intent.blobs.values().map(|x| x.len()).sum::<usize>();
        Ok(ExecutableTransaction::new_v1(
            intent.encoded_instructions.clone(),
            AuthZoneInit::proofs(intent.initial_proofs.clone()),
            intent.references.clone(),
            intent.blobs.clone(),
            ExecutionContext {
                unique_hash,
                intent_hash_nullifications: self.nullifications,
                epoch_range: self.epoch_range,
                payload_size,
                num_of_signature_validations: n_proofs + 1,
                costing_parameters: TransactionCostingParameters {
                    tip: self.tip,
                    free_credit_in_xrd: self.free_credit,
                },
                pre_allocated_addresses: vec![],
                disable_limits_and_costing_modules: self.disable_limits_and_costing,
                proposer_timestamp_range: self.timestamp_range,
            },
        ))
    }
}

/// A system (validator-role) transaction, as the consensus layer issues them.
pub fn system_executable(manifest: SystemTransactionManifestV1, nonce: u32, validator: &TransactionValidator) -> ExecutableTransaction {
    let unique_hash = hash(format!("verif-sim system transaction: {}", nonce));
    manifest
        .into_transaction(unique_hash)
        .with_proofs_ref(btreeset![system_execution(SystemExecution::Validator)])
        .into_executable(validator)
        .expect("system transaction should be convertible")
}

// -------------------------------------------------------------------------------------------------
// Store readers used by monitors (decode substates themselves; independent of receipt summaries)

pub fn entity_type_of(node_id: &NodeId) -> Option<EntityType> {
    node_id.entity_type()
}

pub fn all_node_ids<D: ListableSubstateDatabase>(db: &D) -> BTreeSet<NodeId> {
    db.list_partition_keys()
        .map(|pk| SpreadPrefixKeyMapper::from_db_node_key(&pk.node_key))
        .collect()
}
