//! C39 — account deposit rules are enforced exactly. The receiving account's owner keeps
//! changing the default rule, resource preferences and the authorized-depositor list; a depositor
//! calls the guarded deposit methods (single / batch, refund / abort) with batches mixing allowed
//! and refused resources, naming no badge, a listed or an unlisted one, with or without proving it.

use super::monitors::*;
use super::node::*;
use super::steps::{account_nf_ids, account_vault, balance, View};
use crate::simkit::*;
use radix_common::prelude::*;
use radix_engine::transaction::*;
use radix_engine_interface::blueprints::account::*;
use radix_engine_interface::prelude::*;
use radix_transactions::prelude::*;
use serde::{Deserialize, Serialize};
use serde_json::json;
use std::collections::{BTreeMap, BTreeSet};

#[derive(Clone, Debug, Serialize, Deserialize)]
pub enum Step {
    /// creates fungible F1, F2, non-fungible N1, fungible badge B1 and non-fungible badge B2 (ids 1, 2), all held by the depositor
    Setup,
    /// 0 Accept, 1 Reject, 2 AllowExisting
    SetDefault { rule: u8, by_owner: bool },
    /// res: index into [XRD, F1, F2, N1, B1]; pref 0 Allowed, 1 Disallowed, 2 remove
    SetPref { res: u8, pref: u8 },
    /// badge: 0 B1 (resource), 1 B2 (resource), 2 B2#1, 3 B2#2
    AddDepositor { badge: u8 },
    RemoveDepositor { badge: u8 },
    /// method: 0 try_deposit_or_refund, 1 try_deposit_batch_or_refund, 2 try_deposit_or_abort, 3 try_deposit_batch_or_abort
    /// buckets: (resource index, units); named: badge index or none; proof: 0 none, 1 B1, 2 B2#1, 3 B2#2, 4 B2#1+#2
    Deposit { method: u8, buckets: Vec<(u8, u8)>, named: Option<u8>, proof: u8 },
    /// the owner empties one of the account's vaults (the vault stays: "existing" but empty)
    OwnerWithdrawAll { res: u8 },
    /// plain deposit of one unit by the owner (creates the vault)
    OwnerDeposit { res: u8 },
    /// anyone asks the account for its balance of a resource (a read: must not make the resource "held")
    QueryBalance { res: u8 },
    Restart,
}

#[derive(Clone, Debug, Serialize, Deserialize)]
pub struct Cfg {
    pub n_steps: usize,
    pub fault_permille: u32,
}

pub struct C39;

#[derive(Clone, Debug, PartialEq)]
enum Expect {
    Deposited,
    Refunded,
    Failed,
}

impl World for C39 {
    type Step = Step;
    type Cfg = Cfg;
    fn property(&self) -> &'static str {
        "C39"
    }
    fn world(&self) -> &'static str {
        "ledger"
    }
    fn rule(&self) -> String {
        "Per run: a receiving account whose owner keeps changing its default deposit rule (Accept / Reject / AllowExisting), per-resource preferences (Allowed / Disallowed / removed) and authorized-depositor list (resource-level and id-level badges), empties vaults (existing but empty) and creates them; a depositor holding XRD, two fungibles, a non-fungible and two badges calls try_deposit_or_refund / try_deposit_batch_or_refund / try_deposit_or_abort / try_deposit_batch_or_abort with 1-4 buckets (allowed, refused, repeated, zero-amount), naming no badge, a listed or an unlisted badge, proving none / the named / another badge; injected system errors (F5) and restarts (F8). Oracle = model of the configuration (holdings read from the store): everything is deposited iff every bucket's resource is allowed (preference decides, else default rule; AllowExisting = XRD or vault exists) or the named badge is listed and proven; refused + named listed badge not proven => the call fails; otherwise refund variants leave everything with the depositor and abort variants fail; in every case only the receiver's vaults of the deposited resources change (depositor's loss == receiver's gain, bystander untouched, other receiver balances untouched); refund variants emit a RejectedDepositEvent per refused bucket. evaluations = engine executions; distinct = distinct (method, default rule, batch allowed-pattern, badge situation, outcome).".into()
    }
    fn assumptions(&self) -> Vec<String> {
        vec!["Only the latest account blueprint logic (after all protocol updates) is exercised: an unlisted named badge leads to a refund / abort, not to a failed call of the refund variant.".into()]
    }
    fn real_vs_stub(&self) -> serde_json::Value {
        json!({"real": ["account blueprint (deposit rules, preferences, authorized depositors, try_deposit_*), auth zone / assert_access_rule, resources, engine"], "stub_or_ours": ["clients", "configuration model"]})
    }
    fn probes(&self) -> Vec<&'static str> {
        vec!["deposit.deposited_all_allowed", "deposit.deposited_by_badge", "deposit.refunded", "deposit.aborted", "deposit.failed_badge_not_proven", "deposit.unlisted_badge_named", "deposit.partially_offending_batch", "deposit.allow_existing_empty_vault", "deposit.zero_amount_bucket", "cfg.default_changed", "cfg.pref_changed", "cfg.depositor_changed", "fault.inject_costing_error_fired", "fault.restart_fired"]
    }
    fn budget(&self, tier: Tier) -> (u64, u64) {
        match tier {
            Tier::Quick => (1200, 45),
            Tier::Thorough => (20_000, 900),
        }
    }
    fn gen_cfg(&self, rng: &mut Rng, _tier: Tier, _run: u64) -> Cfg {
        Cfg { n_steps: rng.range(30, 120) as usize, fault_permille: *rng.pick(&[0u32, 0, 80, 200]) }
    }

    fn run(&self, cfg: &Cfg, mode: Mode<Step>) -> RunOutcome<Step> {
        let mut steps = Steps::new(mode);
        let mut stats = Stats::default();
        let mut node = Node::from_base();
        let view = View::new();
        let owner = &view.parties[0];
        let dep = &view.parties[1];
        let bystander = &view.parties[2];
        let mut res: Vec<ResourceAddress> = vec![XRD]; // XRD, F1, F2, N1, B1, B2
        let mut default_rule = 0u8;
        let mut prefs: BTreeMap<u8, u8> = BTreeMap::new();
        let mut listed: BTreeSet<u8> = BTreeSet::new();
        // resources the account holds by the history (a positive amount was deposited at some point; an
        // emptied vault still counts, as the blueprint documents) / may hold (only zero-amount deposits)
        let mut held: BTreeSet<u8> = btreeset![0u8];
        let mut maybe_held: BTreeSet<u8> = BTreeSet::new();
        let mut digest = 0u64;
        let mut violation = None;
        let mut n = 0usize;
        for p in [owner, dep, bystander] {
            let m = ManifestBuilder::new().lock_fee_from_faucet().get_free_xrd_from_faucet().try_deposit_entire_worktop_or_abort(p.account, None).build();
            let nonce = node.next_nonce();
            if let Ok(exe) = TxSpec::new(m, nonce, btreeset![]).build(&node.validator) {
                if let Ok(r) = node.execute(&exe, &ExecOpts::default()) {
                    node.commit(&r);
                }
            }
        }
        let mut fault_rng = Rng::from_u64(cfg.n_steps as u64 ^ 0xC39);
        loop {
            let step = steps.next(|rng| {
                if n > cfg.n_steps {
                    return None;
                }
                if n == 0 {
                    return Some(Step::Setup);
                }
                Some(match rng.below(20) {
                    0..=1 => Step::SetDefault { rule: rng.below(3) as u8, by_owner: rng.chance(9, 10) },
                    2..=4 => Step::SetPref { res: rng.below(5) as u8, pref: rng.below(3) as u8 },
                    5..=6 => Step::AddDepositor { badge: rng.below(4) as u8 },
                    7 => Step::RemoveDepositor { badge: rng.below(4) as u8 },
                    8 => Step::OwnerWithdrawAll { res: rng.below(5) as u8 },
                    9 => {
                        if rng.chance(1, 2) {
                            Step::OwnerDeposit { res: rng.below(2) as u8 }
                        } else {
                            Step::QueryBalance { res: rng.below(5) as u8 }
                        }
                    }
                    10 => Step::Restart,
                    _ => {
                        let method = rng.below(4) as u8;
                        let k = if method % 2 == 0 { 1 } else { rng.range(1, 4) as usize };
                        Step::Deposit {
                            method,
                            buckets: (0..k).map(|_| (rng.below(5) as u8, *rng.pick(&[1u8, 1, 2, 3, 0]))).collect(),
                            named: if rng.chance(1, 2) { Some(rng.below(4) as u8) } else { None },
                            proof: rng.below(5) as u8,
                        }
                    }
                })
            });
            n += 1;
            let Some(step) = step else { break };
            let ix = steps.index();
            let mk = |monitor: &str, detail: String| Violation { monitor: monitor.into(), step: ix, detail, signature: monitor.into() };
            let fault = if fault_rng.below(1000) < cfg.fault_permille as u64 { Some(fault_rng.range(1, 4000)) } else { None };
            let mut run_tx = |node: &mut Node, m: TransactionManifestV1, signer: &super::steps::Party, stats: &mut Stats, fault: Option<u64>| -> Option<(TransactionReceipt, bool)> {
                let nonce = node.next_nonce();
                let exe = TxSpec::new(m, nonce, btreeset![signer.proof.clone()]).build(&node.validator).ok()?;
                let mut o = ExecOpts::default();
                o.inject_at = fault;
                o.kernel_trace = std::env::var("VERIF_KERNEL_TRACE").is_ok();
                stats.evaluations += 1;
                let r = node.execute(&exe, &o).ok()?;
                let injected = fault.is_some() && super::injection_fired(&r);
                if injected {
                    stats.bump("fault.inject_costing_error_fired");
                }
                node.commit(&r);
                Some((r, injected))
            };
            let ok = |r: &TransactionReceipt| matches!(&r.result, TransactionResult::Commit(c) if matches!(c.outcome, TransactionOutcome::Success(_)));
            let badge_of = |b: u8, res: &Vec<ResourceAddress>| -> ResourceOrNonFungible {
                match b % 4 {
                    0 => ResourceOrNonFungible::Resource(res[4]),
                    1 => ResourceOrNonFungible::Resource(res[5]),
                    2 => ResourceOrNonFungible::NonFungible(NonFungibleGlobalId::new(res[5], NonFungibleLocalId::integer(1))),
                    _ => ResourceOrNonFungible::NonFungible(NonFungibleGlobalId::new(res[5], NonFungibleLocalId::integer(2))),
                }
            };
            match step.clone() {
                Step::Restart => {
                    node.restart();
                    stats.bump("fault.restart_fired");
                }
                Step::Setup => {
                    if res.len() > 1 {
                        continue;
                    }
                    let mut made = vec![];
                    for k in 0..5 {
                        let b = ManifestBuilder::new().lock_fee_from_faucet();
                        let m = match k {
                            0 | 1 | 3 => b.create_fungible_resource(OwnerRole::None, true, if k == 3 { 0 } else { 18 }, FungibleResourceRoles::default(), metadata!(), Some(Decimal::from(1_000_000u32))),
                            _ => b.create_non_fungible_resource(
                                OwnerRole::None,
                                NonFungibleIdType::Integer,
                                true,
                                NonFungibleResourceRoles::default(),
                                metadata!(),
                                Some((1..=(if k == 2 { 200u64 } else { 2 })).map(|i| (NonFungibleLocalId::integer(i), ())).collect::<Vec<_>>()),
                            ),
                        }
                        .try_deposit_entire_worktop_or_abort(dep.account, None)
                        .build();
                        if let Some((r, _)) = run_tx(&mut node, m, dep, &mut stats, None) {
                            if let TransactionResult::Commit(c) = &r.result {
                                if let Some(a) = c.new_resource_addresses().first() {
                                    made.push(*a);
                                }
                            }
                        }
                    }
                    if made.len() != 5 {
                        violation = Some(mk("c39.harness_setup_failed", format!("{} resources created", made.len())));
                        break;
                    }
                    // order: XRD, F1, F2, N1, B1, B2
                    res.extend(made);
                }
                Step::SetDefault { rule, by_owner } => {
                    let r = match rule % 3 {
                        0 => DefaultDepositRule::Accept,
                        1 => DefaultDepositRule::Reject,
                        _ => DefaultDepositRule::AllowExisting,
                    };
                    let m = ManifestBuilder::new().lock_fee_from_faucet().call_method(owner.account, ACCOUNT_SET_DEFAULT_DEPOSIT_RULE_IDENT, manifest_args!(r)).build();
                    let Some((rc, _)) = run_tx(&mut node, m, if by_owner { owner } else { dep }, &mut stats, fault) else { continue };
                    if ok(&rc) {
                        if !by_owner {
                            stats.bump("note.other_property.c08.stranger_configured_account");
                        }
                        default_rule = rule % 3;
                        stats.bump("cfg.default_changed");
                    }
                }
                Step::SetPref { res: ri, pref } => {
                    if res.len() < 6 {
                        continue;
                    }
                    let ra = res[ri as usize % 5];
                    let b = ManifestBuilder::new().lock_fee_from_faucet();
                    let m = match pref % 3 {
                        0 => b.call_method(owner.account, ACCOUNT_SET_RESOURCE_PREFERENCE_IDENT, manifest_args!(ra, ResourcePreference::Allowed)),
                        1 => b.call_method(owner.account, ACCOUNT_SET_RESOURCE_PREFERENCE_IDENT, manifest_args!(ra, ResourcePreference::Disallowed)),
                        _ => b.call_method(owner.account, ACCOUNT_REMOVE_RESOURCE_PREFERENCE_IDENT, manifest_args!(ra)),
                    }
                    .build();
                    let Some((rc, _)) = run_tx(&mut node, m, owner, &mut stats, fault) else { continue };
                    if ok(&rc) {
                        if pref % 3 == 2 {
                            prefs.remove(&(ri % 5));
                        } else {
                            prefs.insert(ri % 5, pref % 3);
                        }
                        stats.bump("cfg.pref_changed");
                    }
                }
                Step::AddDepositor { badge } | Step::RemoveDepositor { badge } => {
                    if res.len() < 6 {
                        continue;
                    }
                    let add = matches!(step, Step::AddDepositor { .. });
                    let m = ManifestBuilder::new()
                        .lock_fee_from_faucet()
                        .call_method(owner.account, if add { ACCOUNT_ADD_AUTHORIZED_DEPOSITOR_IDENT } else { ACCOUNT_REMOVE_AUTHORIZED_DEPOSITOR_IDENT }, manifest_args!(badge_of(badge, &res)))
                        .build();
                    let Some((rc, _)) = run_tx(&mut node, m, owner, &mut stats, fault) else { continue };
                    if ok(&rc) {
                        if add {
                            listed.insert(badge % 4);
                        } else {
                            listed.remove(&(badge % 4));
                        }
                        stats.bump("cfg.depositor_changed");
                    }
                }
                Step::OwnerWithdrawAll { res: ri } => {
                    if res.len() < 6 {
                        continue;
                    }
                    let ra = res[ri as usize % 5];
                    let bal = balance(&node, owner.account, ra);
                    if !bal.is_positive() || ra == XRD {
                        continue;
                    }
                    let m = ManifestBuilder::new().lock_fee_from_faucet().withdraw_from_account(owner.account, ra, bal).deposit_entire_worktop(dep.account).build();
                    // the depositor's own account accepts everything (default configuration) - needs its owner's signature for plain deposit
                    let nonce = node.next_nonce();
                    if let Ok(exe) = TxSpec::new(m, nonce, btreeset![owner.proof.clone(), dep.proof.clone()]).build(&node.validator) {
                        stats.evaluations += 1;
                        if let Ok(r) = node.execute(&exe, &ExecOpts::default()) {
                            node.commit(&r);
                        }
                    }
                }
                Step::OwnerDeposit { res: ri } => {
                    if res.len() < 6 {
                        continue;
                    }
                    let ra = res[1 + ri as usize % 2];
                    let m = ManifestBuilder::new().lock_fee_from_faucet().withdraw_from_account(dep.account, ra, Decimal::ONE).deposit_entire_worktop(owner.account).build();
                    let nonce = node.next_nonce();
                    if let Ok(exe) = TxSpec::new(m, nonce, btreeset![owner.proof.clone(), dep.proof.clone()]).build(&node.validator) {
                        stats.evaluations += 1;
                        if let Ok(r) = node.execute(&exe, &ExecOpts::default()) {
                            node.commit(&r);
                            if ok(&r) {
                                held.insert(1 + ri % 2);
                            }
                        }
                    }
                }
                Step::QueryBalance { res: ri } => {
                    if res.len() < 6 {
                        continue;
                    }
                    let ra = res[ri as usize % 5];
                    let m = ManifestBuilder::new().lock_fee_from_faucet().call_method(owner.account, ACCOUNT_BALANCE_IDENT, manifest_args!(ra)).build();
                    if let Some((r, _)) = run_tx(&mut node, m, dep, &mut stats, None) {
                        if ok(&r) {
                            stats.bump("query.balance");
                        }
                    }
                }
                Step::Deposit { method, buckets, named, proof } => {
                    if res.len() < 6 || buckets.is_empty() {
                        continue;
                    }
                    let method = method % 4;
                    let batch = method % 2 == 1;
                    let buckets: Vec<(u8, u8)> = if batch { buckets.clone() } else { vec![buckets[0]] };
                    // ---- model prediction (from configuration + vault existence read from the store)
                    let allowed = |ri: u8| -> bool {
                        let ra = res[ri as usize % 5];
                        match prefs.get(&(ri % 5)) {
                            Some(0) => true,
                            Some(_) => false,
                            None => match default_rule {
                                0 => true,
                                1 => false,
                                // "already holds": by the history of deposits, not by what the store happens to contain
                                _ => ra == XRD || held.contains(&(ri % 5)),
                            },
                        }
                    };
                    // a resource that only ever arrived in zero-amount buckets: the documentation does not say
                    // whether the account "holds" it - no verdict when the decision hinges on it
                    let hinges_on_maybe = default_rule == 2 && buckets.iter().any(|(r, _)| prefs.get(&(r % 5)).is_none() && maybe_held.contains(&(r % 5)) && !held.contains(&(r % 5)));
                    let pattern: Vec<bool> = buckets.iter().map(|(r, _)| allowed(*r)).collect();
                    let all_allowed = pattern.iter().all(|x| *x);
                    let named_listed = named.map(|b| listed.contains(&(b % 4)));
                    let proven = |b: u8| -> bool {
                        match (b % 4, proof % 5) {
                            (0, 1) => true,
                            (1, 2) | (1, 3) | (1, 4) => true,
                            (2, 2) | (2, 4) => true,
                            (3, 3) | (3, 4) => true,
                            _ => false,
                        }
                    };
                    let expect = if all_allowed {
                        Expect::Deposited
                    } else {
                        match (named, named_listed) {
                            (Some(b), Some(true)) => {
                                if proven(b) {
                                    Expect::Deposited
                                } else {
                                    Expect::Failed
                                }
                            }
                            _ => {
                                if method >= 2 {
                                    Expect::Failed
                                } else {
                                    Expect::Refunded
                                }
                            }
                        }
                    };
                    // ---- manifest
                    let mut b = ManifestBuilder::new().lock_fee_from_faucet();
                    b = match proof % 5 {
                        1 => b.create_proof_from_account_of_amount(dep.account, res[4], Decimal::ONE),
                        2 => b.create_proof_from_account_of_non_fungibles(dep.account, res[5], [NonFungibleLocalId::integer(1)]),
                        3 => b.create_proof_from_account_of_non_fungibles(dep.account, res[5], [NonFungibleLocalId::integer(2)]),
                        4 => b.create_proof_from_account_of_non_fungibles(dep.account, res[5], [NonFungibleLocalId::integer(1), NonFungibleLocalId::integer(2)]),
                        _ => b,
                    };
                    let mut names = vec![];
                    let mut need: BTreeMap<u8, Decimal> = BTreeMap::new();
                    for (i, (ri, units)) in buckets.iter().enumerate() {
                        let ra = res[*ri as usize % 5];
                        let amt = Decimal::from(*units as u32);
                        *need.entry(*ri % 5).or_default() += amt;
                        let name = format!("b{}", i);
                        if amt.is_positive() {
                            b = b.withdraw_from_account(dep.account, ra, amt);
                        }
                        b = b.take_from_worktop(ra, amt, &name);
                        names.push(name);
                        if *units == 0 {
                            stats.bump("deposit.zero_amount_bucket");
                        }
                    }
                    let badge = named.map(|x| badge_of(x, &res));
                    let recv = owner.account;
                    b = b.with_name_lookup(|b, l| {
                        let bs: Vec<ManifestBucket> = names.iter().map(|n| l.bucket(n)).collect();
                        match method {
                            0 => b.call_method(recv, ACCOUNT_TRY_DEPOSIT_OR_REFUND_IDENT, manifest_args!(bs[0], badge.clone())),
                            1 => b.call_method(recv, ACCOUNT_TRY_DEPOSIT_BATCH_OR_REFUND_IDENT, manifest_args!(bs, badge.clone())),
                            2 => b.call_method(recv, ACCOUNT_TRY_DEPOSIT_OR_ABORT_IDENT, manifest_args!(bs[0], badge.clone())),
                            _ => b.call_method(recv, ACCOUNT_TRY_DEPOSIT_BATCH_OR_ABORT_IDENT, manifest_args!(bs, badge.clone())),
                        }
                    });
                    let m = b.deposit_entire_worktop(dep.account).build();
                    // depositor must hold enough (otherwise the withdraw fails: not this property's business)
                    let enough = need.iter().all(|(ri, a)| balance(&node, dep.account, res[*ri as usize]) >= *a);
                    if !enough {
                        continue;
                    }
                    let snapshot = |node: &Node| -> Vec<(Decimal, Decimal, Decimal)> { res.iter().map(|r| (balance(node, owner.account, *r), balance(node, dep.account, *r), balance(node, bystander.account, *r))).collect() };
                    let nf_owner_before: BTreeSet<NonFungibleLocalId> = account_nf_ids(&node, owner.account, res[3]).into_iter().collect();
                    let before = snapshot(&node);
                    let Some((rc, injected)) = run_tx(&mut node, m, dep, &mut stats, fault) else { continue };
                    let after = snapshot(&node);
                    let success = ok(&rc);
                    let badge_code = match (named, named_listed) {
                        (None, _) => 0u64,
                        (Some(b), Some(true)) => 1 + proven(b) as u64,
                        _ => 3 + (proof % 5 != 0) as u64,
                    };
                    stats.distinct.insert(prng::mix(prng::mix(method as u64 * 4 + default_rule as u64, pattern.iter().fold(1u64, |a, x| a * 2 + *x as u64)), prng::mix(badge_code, success as u64)));
                    digest = prng::mix(digest, prng::fnv64(format!("{:?}", after).as_bytes()));
                    // ---- observation
                    let mut received: BTreeMap<u8, Decimal> = BTreeMap::new();
                    let mut bad_side_effect = None;
                    for (i, r) in res.iter().enumerate() {
                        let d_owner = after[i].0.checked_sub(before[i].0).unwrap();
                        let d_dep = after[i].1.checked_sub(before[i].1).unwrap();
                        let d_by = after[i].2.checked_sub(before[i].2).unwrap();
                        if !d_by.is_zero() {
                            bad_side_effect = Some(format!("bystander's balance of {:?} changed by {}", r, d_by));
                        }
                        if *r != XRD && d_owner.checked_add(d_dep).unwrap() != Decimal::ZERO {
                            bad_side_effect = Some(format!("resource {:?}: receiver {} depositor {}", r, d_owner, d_dep));
                        }
                        if i < 5 && !d_owner.is_zero() {
                            received.insert(i as u8, d_owner);
                        }
                        if i >= 5 && !d_owner.is_zero() {
                            bad_side_effect = Some(format!("receiver's balance of badge resource {:?} changed by {}", r, d_owner));
                        }
                        if !need.contains_key(&(i as u8)) && !d_owner.is_zero() {
                            bad_side_effect = Some(format!("receiver's balance of {:?}, which is not in the batch, changed by {}", r, d_owner));
                        }
                    }
                    if let Some(d) = bad_side_effect {
                        violation = Some(mk("c39.other_vaults_changed", format!("{:?} (default rule {}, prefs {:?}, listed {:?}): {}", step, default_rule, prefs, listed, d)));
                        break;
                    }
                    let need_nonzero: BTreeMap<u8, Decimal> = need.iter().filter(|(_, a)| a.is_positive()).map(|(k, v)| (*k, *v)).collect();
                    let observed = if !success {
                        Expect::Failed
                    } else if received == need_nonzero && (!need_nonzero.is_empty() || expect != Expect::Refunded) {
                        Expect::Deposited
                    } else if received.is_empty() {
                        Expect::Refunded
                    } else {
                        violation = Some(mk("c39.partial_deposit", format!("{:?}: receiver got {:?} of the offered {:?} (default rule {}, prefs {:?}, listed {:?})", step, received, need, default_rule, prefs, listed)));
                        break;
                    };
                    if !success && after != before {
                        violation = Some(mk("c39.failed_call_changed_balances", format!("{:?}: {:?} -> {:?}", step, before, after)));
                        break;
                    }
                    if injected || (fault.is_some() && !success) {
                        continue; // the fault decided the outcome
                    }
                    // zero-amount-only batches: "deposited" and "refunded" are indistinguishable by balances
                    let comparable = !need_nonzero.is_empty() && !hinges_on_maybe;
                    if observed == Expect::Deposited {
                        for (ri, units) in &buckets {
                            if *units > 0 {
                                held.insert(ri % 5);
                            } else {
                                maybe_held.insert(ri % 5);
                            }
                        }
                    }
                    if comparable && observed != expect {
                        violation = Some(mk(
                            "c39.deposit_rule_not_enforced",
                            format!(
                                "{:?}: expected {:?}, observed {:?}; default rule {} (0 accept, 1 reject, 2 allow existing), preferences {:?} (0 allowed, 1 disallowed), allowed pattern {:?}, authorized depositors {:?}, named badge listed: {:?}, proven: {:?}; receiver got {:?}; outcome {}",
                                step,
                                expect,
                                observed,
                                default_rule,
                                prefs,
                                pattern,
                                listed,
                                named_listed,
                                named.map(|b| proven(b)),
                                received,
                                why(&rc)
                            ),
                        ));
                        break;
                    }
                    // events of the refund variants
                    if success && observed == Expect::Refunded && comparable {
                        if let TransactionResult::Commit(c) = &rc.result {
                            let rejected = c.application_events.iter().filter(|(EventTypeIdentifier(_, n), _)| n == "RejectedDepositEvent").count();
                            let refused = if batch { pattern.iter().filter(|x| !**x).count() } else { 1 };
                            if rejected != refused {
                                violation = Some(mk("c39.rejected_deposit_events", format!("{:?}: {} RejectedDepositEvents for {} refused buckets", step, rejected, refused)));
                                break;
                            }
                        }
                    }
                    // a deposited non-fungible batch delivers ids, not just a count
                    if observed == Expect::Deposited && need_nonzero.contains_key(&3) {
                        let now: BTreeSet<NonFungibleLocalId> = account_nf_ids(&node, owner.account, res[3]).into_iter().collect();
                        if now.len() != nf_owner_before.len() + need_nonzero[&3].to_string().parse::<usize>().unwrap_or(0) {
                            violation = Some(mk("c39.partial_deposit", format!("{:?}: receiver holds {} ids after, {} before", step, now.len(), nf_owner_before.len())));
                            break;
                        }
                    }
                    stats.bump(match (&observed, all_allowed) {
                        (Expect::Deposited, true) => "deposit.deposited_all_allowed",
                        (Expect::Deposited, false) => "deposit.deposited_by_badge",
                        (Expect::Refunded, _) => "deposit.refunded",
                        (Expect::Failed, _) => {
                            if named_listed == Some(true) {
                                "deposit.failed_badge_not_proven"
                            } else {
                                "deposit.aborted"
                            }
                        }
                    });
                    if named.is_some() && named_listed == Some(false) && !all_allowed {
                        stats.bump("deposit.unlisted_badge_named");
                    }
                    if batch && !all_allowed && pattern.iter().any(|x| *x) {
                        stats.bump("deposit.partially_offending_batch");
                    }
                    if default_rule == 2 && buckets.iter().any(|(ri, _)| res[*ri as usize % 5] != XRD && prefs.get(&(ri % 5)).is_none() && before[*ri as usize % 5].0.is_zero() && account_vault(&node.db, owner.account, res[*ri as usize % 5]).is_some()) && observed == Expect::Deposited {
                        stats.bump("deposit.allow_existing_empty_vault");
                    }
                }
            }
        }
        RunOutcome { steps: steps.taken, violation, stats, digest }
    }
}

fn why(r: &TransactionReceipt) -> String {
    let s = match &r.result {
        TransactionResult::Commit(c) => format!("{:?}", c.outcome),
        TransactionResult::Reject(r) => format!("{:?}", r.reason),
        TransactionResult::Abort(a) => format!("{:?}", a.reason),
    };
    s[..s.len().min(300)].to_string()
}
