//! C42 — validator staking and emissions never create value. A node bootstrapped from a seeded
//! genesis (1-3 validators, max set size, emission per epoch, reliability threshold, unstake
//! delay, rounds per epoch); parties create / register / unregister validators, stake, unstake,
//! claim, stake-then-unstake at once, change fees, lock owner stake units; the consensus driver
//! runs rounds with missed proposals and epoch changes. Oracle in exact integers from the store
//! before and after every transaction and from the epoch-change events.

use super::monitors::*;
use super::node::*;
use super::pools::attos;
use super::steps::{account_nf_ids, balance, consensus_round, View};
use crate::simkit::*;
use num_bigint::BigInt;
use num_traits::{Signed, Zero};
use radix_common::prelude::*;
use radix_engine::blueprints::consensus_manager::*;
use radix_engine::system::system_substates::*;
use radix_engine::transaction::*;
use radix_engine::updates::BabylonSettings;
use radix_engine_interface::prelude::*;
use radix_substate_store_interface::interface::*;
use radix_transactions::prelude::*;
use serde::{Deserialize, Serialize};
use serde_json::json;
use std::collections::{BTreeMap, BTreeSet};

#[derive(Clone, Debug, Serialize, Deserialize)]
pub enum Step {
    Fund { actor: u8 },
    NewValidator { actor: u8, fee: String },
    Register { val: u8, on: bool },
    Accept { val: u8, accept: bool },
    Stake { val: u8, actor: u8, amount: String, as_owner: bool },
    Unstake { val: u8, actor: u8, amount: String },
    Claim { val: u8, actor: u8, nth: u8 },
    /// stake each amount, then (same transaction) unstake all stake units obtained
    StakeUnstake { val: u8, actor: u8, amounts: Vec<String> },
    UpdateFee { val: u8, fee: String },
    LockOwner { val: u8, amount: String },
    StartUnlock { val: u8, amount: String },
    FinishUnlock { val: u8 },
    /// consensus driver: next_round(round + 1 + |gap_leaders|) led by validator index `leader`
    Round { leader: u8, gap_leaders: Vec<u8>, dt_ms: u32 },
    Restart,
}

#[derive(Clone, Debug, Serialize, Deserialize)]
pub struct Cfg {
    pub n_steps: usize,
    pub fault_permille: u32,
    pub genesis_stakes: Vec<String>,
    pub max_validators: u32,
    pub rounds_per_epoch: u64,
    pub num_unstake_epochs: u64,
    pub emission: String,
    pub min_reliability: String,
    /// 0 small stakes (all in one 100k bucket), 1 large stakes (buckets differ)
    pub scale: u8,
}

pub struct C42;

struct Val {
    addr: ComponentAddress,
    owner: usize,
    stake_unit: ResourceAddress,
    claim_nft: ResourceAddress,
    stake_vault: NodeId,
    pending_vault: NodeId,
}

#[derive(Clone, Debug)]
struct VObs {
    stake: BigInt,
    units: BigInt,
    pending: BigInt,
    registered: bool,
}

fn dec(s: &str) -> Option<Decimal> {
    Decimal::try_from(s).ok()
}

fn vstate(db: &Db, addr: &ComponentAddress) -> Option<ValidatorSubstate> {
    field::<ValidatorStateFieldPayload>(db, addr.as_node_id(), MAIN_BASE_PARTITION, ValidatorField::State.field_index()).map(|p| p.fully_update_and_into_latest_version())
}

fn supply(db: &Db, res: &ResourceAddress) -> Decimal {
    use radix_engine::blueprints::resource::*;
    field::<FungibleResourceManagerTotalSupplyFieldPayload>(db, res.as_node_id(), MAIN_BASE_PARTITION, FungibleResourceManagerField::TotalSupply.field_index())
        .map(|p| p.fully_update_and_into_latest_version())
        .unwrap_or(Decimal::ZERO)
}

fn observe(db: &Db, v: &Val) -> VObs {
    VObs {
        stake: attos(fungible_vault_balance(db, &v.stake_vault).unwrap_or(Decimal::ZERO)),
        units: attos(supply(db, &v.stake_unit)),
        pending: attos(fungible_vault_balance(db, &v.pending_vault).unwrap_or(Decimal::ZERO)),
        registered: vstate(db, &v.addr).map(|s| s.is_registered).unwrap_or(false),
    }
}

fn val_from(db: &Db, addr: ComponentAddress, view: &View) -> Option<Val> {
    let s = vstate(db, &addr)?;
    let owner = view.parties.iter().position(|p| p.key.public_key() == s.key).unwrap_or(0);
    Some(Val { addr, owner, stake_unit: s.stake_unit_resource, claim_nft: s.claim_nft, stake_vault: s.stake_xrd_vault_id.0, pending_vault: s.pending_xrd_withdraw_vault_id.0 })
}

fn claim_data(db: &Db, res: ResourceAddress, id: &NonFungibleLocalId) -> Option<UnstakeData> {
    let e: Option<KeyValueEntrySubstate<ScryptoValue>> = db.get_substate(res.as_node_id(), MAIN_BASE_PARTITION.at_offset(PartitionOffset(1)).unwrap(), SubstateKey::Map(scrypto_encode(id).unwrap()));
    e.and_then(|e| e.into_value()).and_then(|v| scrypto_decode::<UnstakeData>(&scrypto_encode(&v).unwrap()).ok())
}

fn bucket_100k(stake: &BigInt) -> BigInt {
    let b: BigInt = stake / (BigInt::from(100_000u64) * BigInt::from(10u64).pow(18));
    b.min(BigInt::from(u16::MAX))
}

fn amount_near(rng: &mut Rng, around: Decimal, scale: u8) -> String {
    let a = match rng.below(12) {
        0 => Decimal::from_attos(I192::from(1)),
        1 => Decimal::ONE,
        2..=4 => around.checked_div(Decimal::from(*rng.pick(&[2u64, 3, 7, 10, 1000]))).unwrap_or(around),
        5 => around,
        6 => around.checked_add(Decimal::ONE).unwrap_or(around),
        7 => Decimal::from(rng.range(1, 1000)),
        8 => Decimal::try_from(format!("{}.{}", rng.range(0, 999), rng.range(1, 999_999_999_999_999_999)).as_str()).unwrap_or(Decimal::ONE),
        _ => {
            if scale == 1 {
                Decimal::from(rng.range(50_000, 900_000))
            } else {
                Decimal::from(rng.range(1, 20_000))
            }
        }
    };
    if a.is_positive() { a } else { Decimal::ONE }.to_string()
}

impl World for C42 {
    type Step = Step;
    type Cfg = Cfg;
    fn property(&self) -> &'static str {
        "C42"
    }
    fn world(&self) -> &'static str {
        "ledger"
    }
    fn rule(&self) -> String {
        "Per run: a node bootstrapped by the real protocol executor from a seeded genesis (1-3 genesis validators owned by the parties, stakes below and above the 100k sort bucket, max active set size 1-4, 1-3 rounds per epoch, unstake delay 0-3 epochs, emission per epoch 0 .. 1e6 XRD, reliability threshold 0 / 0.5 / 1); 3 parties create further validators, register / unregister them, switch delegated stake, stake (as owner or delegator), unstake, claim, stake-then-unstake in one transaction (1-3 stakes), request fee changes, lock / unlock owner stake units, with injected system errors (F5) and restarts (F8), while the consensus driver issues next_round with seeded leaders and missed proposals, driving epoch changes. Oracle in exact integers (attos): stake of x mints u units with u*T <= x*S and u >= x*S/T - x*1e-18 - 2 attos (first stake 1:1) and moves exactly x into the stake vault; unstake of u units records a claim a with a*S <= u*T, burns exactly u and moves a from the stake vault to the pending vault; a claim pays exactly the recorded amount out of the pending vault; stake-then-unstake records a claim <= the XRD staked; per epoch change: XRD minted in the transaction <= configured emission, rewards applied <= reward vault before and the vault shrinks by exactly that, the event's validator set has <= max_validators members, each registered with positive stake equal to its stake vault, in descending stake order, and no excluded registered validator lies in a strictly higher 100k-XRD sort bucket than an included one; failed / fault-injected transactions change no stake, unit supply or pending amounts. evaluations = engine executions; distinct = distinct (step kind, validator state class, outcome).".into()
    }
    fn assumptions(&self) -> Vec<String> {
        vec![
            "Selection of the active set is checked at the granularity of the engine's own sort key (100k XRD buckets): within one bucket the property does not say who is chosen.".into(),
            "Fee-change, owner-stake lock/unlock steps are part of the history; their own delays are not asserted.".into(),
        ]
    }
    fn real_vs_stub(&self) -> serde_json::Value {
        json!({"real": ["ConsensusManager + Validator blueprints (stake, unstake, claim, register, emissions, rewards, epoch change)", "genesis bootstrap with custom ConsensusManagerConfig and validators", "resources, accounts, engine"], "stub_or_ours": ["clients", "consensus driver (leaders, missed proposals, clock)", "integer oracle"]})
    }
    fn probes(&self) -> Vec<&'static str> {
        vec![
            "ok.Stake", "ok.StakeAsOwner", "ok.Unstake", "ok.Claim", "ok.StakeUnstake", "ok.NewValidator", "ok.Register", "ok.Unregister", "ok.UpdateFee", "ok.LockOwner", "ok.Round", "epoch.changes", "epoch.emission_minted",
            "epoch.rewards_applied", "epoch.set_smaller_than_eligible", "epoch.unreliable_validator", "stake.first_stake", "stake.ratio_not_one", "unstake.truncated", "fault.inject_costing_error_fired", "fault.restart_fired",
        ]
    }
    fn budget(&self, tier: Tier) -> (u64, u64) {
        match tier {
            Tier::Quick => (600, 50),
            Tier::Thorough => (8_000, 900),
        }
    }
    fn gen_cfg(&self, rng: &mut Rng, _tier: Tier, _run: u64) -> Cfg {
        let scale = rng.below(2) as u8;
        let ng = rng.range(1, 3) as usize;
        Cfg {
            n_steps: rng.range(30, 110) as usize,
            fault_permille: *rng.pick(&[0u32, 0, 100, 200]),
            genesis_stakes: (0..ng).map(|_| if scale == 1 { rng.pick(&["100000", "250000", "1000000", "99999.999999999999999999", "3"]).to_string() } else { rng.pick(&["1", "10", "1000", "0.000000000000000001", "12345.678"]).to_string() }).collect(),
            max_validators: rng.range(1, 4) as u32,
            rounds_per_epoch: rng.range(1, 3),
            num_unstake_epochs: rng.range(0, 3),
            emission: rng.pick(&["0", "0.000000000000000001", "1", "100", "2853.881278538812785388", "1000000"]).to_string(),
            min_reliability: rng.pick(&["0", "0.5", "1"]).to_string(),
            scale,
        }
    }

    fn run(&self, cfg: &Cfg, mode: Mode<Step>) -> RunOutcome<Step> {
        let mut steps = Steps::new(mode);
        let mut stats = Stats::default();
        let view = View::new();
        let mut cm = ConsensusManagerConfig::test_default();
        cm.max_validators = cfg.max_validators;
        cm.epoch_change_condition = EpochChangeCondition { min_round_count: cfg.rounds_per_epoch, max_round_count: cfg.rounds_per_epoch, target_duration_millis: 0 };
        cm.num_unstake_epochs = cfg.num_unstake_epochs;
        cm.total_emission_xrd_per_epoch = dec(&cfg.emission).unwrap_or(Decimal::ONE);
        cm.min_validator_reliability = dec(&cfg.min_reliability).unwrap_or(Decimal::ONE);
        cm.validator_creation_usd_cost = Decimal::from(10u32);
        let emission_cap = attos(cm.total_emission_xrd_per_epoch);
        let settings = BabylonSettings::validators_and_single_staker(
            cfg.genesis_stakes.iter().take(3).enumerate().map(|(i, s)| (view.parties[i].key.public_key(), dec(s).unwrap_or(Decimal::ONE))).collect(),
            view.parties[0].account,
            Decimal::from(50_000_000u64),
            Epoch::of(1),
            cm,
        );
        let mut node = Node::from_genesis(settings);
        let mut vals: Vec<Val> = vec![];
        for n in all_node_ids(&node.db) {
            if n.entity_type() == Some(EntityType::GlobalValidator) {
                if let Ok(a) = ComponentAddress::try_from(n.0.as_slice()) {
                    if let Some(v) = val_from(&node.db, a, &view) {
                        vals.push(v);
                    }
                }
            }
        }
        let mut digest = 0u64;
        let mut violation = None;
        let mut n = 0usize;
        let mut clock_ms: i64 = 1;
        let mut fault_rng = Rng::from_u64(cfg.n_steps as u64 ^ 0xC42);
        loop {
            let step = steps.next(|rng| {
                if n >= cfg.n_steps + 3 {
                    return None;
                }
                if n < 3 {
                    return Some(Step::Fund { actor: n as u8 });
                }
                // genesis validators keep 100% of the emission as fee (stake : units stays 1 : 1);
                // most runs lower the fees first so that the ratio drifts
                if n < 3 + cfg.genesis_stakes.len().min(3) && cfg.n_steps % 4 != 0 {
                    return Some(Step::UpdateFee { val: (n - 3) as u8, fee: rng.pick(&["0", "0.01", "0.3"]).to_string() });
                }
                let actor = rng.below(3) as u8;
                let vi = rng.below(vals.len().max(1) as u64) as u8;
                let acct = view.parties[actor as usize].account;
                let xrd = balance(&node, acct, XRD);
                let units_held = vals.get(vi as usize).map(|v| balance(&node, acct, v.stake_unit)).unwrap_or(Decimal::ZERO);
                Some(match rng.below(40) {
                    0..=8 => Step::Stake { val: vi, actor, amount: amount_near(rng, xrd, cfg.scale), as_owner: rng.chance(1, 4) },
                    9..=14 => Step::Unstake { val: vi, actor, amount: amount_near(rng, units_held, cfg.scale) },
                    15..=18 => Step::Claim { val: vi, actor, nth: rng.below(3) as u8 },
                    19..=22 => Step::StakeUnstake { val: vi, actor, amounts: (0..rng.range(1, 3)).map(|_| amount_near(rng, xrd, cfg.scale)).collect() },
                    23 => Step::NewValidator { actor, fee: rng.pick(&["0", "0.02", "0.5", "1"]).to_string() },
                    24..=25 => Step::Register { val: vi, on: rng.chance(3, 4) },
                    26 => Step::Accept { val: vi, accept: rng.chance(3, 4) },
                    27 => Step::UpdateFee { val: vi, fee: rng.pick(&["0", "0.01", "0.5", "1", "1.1"]).to_string() },
                    28 => Step::LockOwner { val: vi, amount: amount_near(rng, units_held, cfg.scale) },
                    29 => Step::StartUnlock { val: vi, amount: amount_near(rng, units_held, cfg.scale) },
                    30 => Step::FinishUnlock { val: vi },
                    31 => Step::Fund { actor },
                    32 => Step::Restart,
                    _ => Step::Round { leader: rng.below(cfg.max_validators as u64 + 1) as u8, gap_leaders: (0..*rng.pick(&[0u64, 0, 0, 1, 2, 5])).map(|_| rng.below(cfg.max_validators as u64) as u8).collect(), dt_ms: *rng.pick(&[1u32, 1000, 60_000]) },
                })
            });
            n += 1;
            let Some(step) = step else { break };
            let ix = steps.index();
            let mk = |monitor: &str, detail: String| Violation { monitor: monitor.into(), step: ix, detail, signature: monitor.into() };
            let fault = if fault_rng.below(1000) < cfg.fault_permille as u64 { Some(fault_rng.range(1, 4000)) } else { None };
            let ok = |r: &TransactionReceipt| matches!(&r.result, TransactionResult::Commit(c) if matches!(c.outcome, TransactionOutcome::Success(_)));
            // ---- build
            let mut system = false;
            let b = ManifestBuilder::new().lock_fee_from_faucet();
            let party = |a: &u8| &view.parties[*a as usize % 3];
            let owner_proof = |b: ManifestBuilder, v: &Val| b.create_proof_from_account_of_non_fungibles(view.parties[v.owner].account, VALIDATOR_OWNER_BADGE, [NonFungibleLocalId::bytes(v.addr.as_node_id().0).unwrap()]);
            let (manifest, signer, vix): (Option<TransactionManifestV1>, usize, Option<usize>) = match &step {
                Step::Restart => {
                    node.restart();
                    stats.bump("fault.restart_fired");
                    continue;
                }
                Step::Fund { actor } => (Some(b.get_free_xrd_from_faucet().try_deposit_entire_worktop_or_abort(party(actor).account, None).build()), *actor as usize % 3, None),
                Step::NewValidator { actor, fee } => {
                    let pk = Secp256k1PrivateKey::from_u64(9000 + vals.len() as u64).unwrap().public_key();
                    let a = party(actor).account;
                    (
                        dec(fee).map(|f| {
                            b.withdraw_from_account(a, XRD, Decimal::from(2000u32))
                                .take_all_from_worktop(XRD, "pay")
                                .with_name_lookup(|b, l| b.create_validator(pk, f, l.bucket("pay")))
                                .try_deposit_entire_worktop_or_abort(a, None)
                                .build()
                        }),
                        *actor as usize % 3,
                        None,
                    )
                }
                Step::Round { .. } => {
                    system = true;
                    (None, 0, None)
                }
                other => {
                    let (val, actor) = match other {
                        Step::Register { val, .. } | Step::Accept { val, .. } | Step::UpdateFee { val, .. } | Step::LockOwner { val, .. } | Step::StartUnlock { val, .. } | Step::FinishUnlock { val } => (*val, None),
                        Step::Stake { val, actor, .. } | Step::Unstake { val, actor, .. } | Step::Claim { val, actor, .. } | Step::StakeUnstake { val, actor, .. } => (*val, Some(*actor)),
                        _ => unreachable!(),
                    };
                    let Some(v) = vals.get(val as usize) else { continue };
                    let signer = actor.map(|a| a as usize % 3).unwrap_or(v.owner);
                    let a = view.parties[signer].account;
                    let m = match other {
                        Step::Register { on, .. } => Some(if *on { owner_proof(b, v).register_validator(v.addr).build() } else { owner_proof(b, v).unregister_validator(v.addr).build() }),
                        Step::Accept { accept, .. } => Some(owner_proof(b, v).call_method(v.addr, VALIDATOR_UPDATE_ACCEPT_DELEGATED_STAKE_IDENT, manifest_args!(*accept)).build()),
                        Step::UpdateFee { fee, .. } => dec(fee).map(|f| owner_proof(b, v).call_method(v.addr, VALIDATOR_UPDATE_FEE_IDENT, manifest_args!(f)).build()),
                        Step::LockOwner { amount, .. } => dec(amount).map(|x| {
                            owner_proof(b, v)
                                .withdraw_from_account(a, v.stake_unit, x)
                                .take_all_from_worktop(v.stake_unit, "u")
                                .with_name_lookup(|b, l| b.call_method(v.addr, VALIDATOR_LOCK_OWNER_STAKE_UNITS_IDENT, manifest_args!(l.bucket("u"))))
                                .build()
                        }),
                        Step::StartUnlock { amount, .. } => dec(amount).map(|x| owner_proof(b, v).call_method(v.addr, VALIDATOR_START_UNLOCK_OWNER_STAKE_UNITS_IDENT, manifest_args!(x)).build()),
                        Step::FinishUnlock { .. } => Some(owner_proof(b, v).call_method(v.addr, VALIDATOR_FINISH_UNLOCK_OWNER_STAKE_UNITS_IDENT, manifest_args!()).try_deposit_entire_worktop_or_abort(a, None).build()),
                        Step::Stake { amount, as_owner, .. } => dec(amount).map(|x| {
                            let bb = if *as_owner { owner_proof(b, v) } else { b };
                            bb.withdraw_from_account(a, XRD, x)
                                .take_all_from_worktop(XRD, "s")
                                .with_name_lookup(|b, l| if *as_owner { b.stake_validator_as_owner(v.addr, l.bucket("s")) } else { b.stake_validator(v.addr, l.bucket("s")) })
                                .try_deposit_entire_worktop_or_abort(a, None)
                                .build()
                        }),
                        Step::Unstake { amount, .. } => dec(amount).map(|x| {
                            b.withdraw_from_account(a, v.stake_unit, x)
                                .take_all_from_worktop(v.stake_unit, "u")
                                .with_name_lookup(|b, l| b.unstake_validator(v.addr, l.bucket("u")))
                                .try_deposit_entire_worktop_or_abort(a, None)
                                .build()
                        }),
                        Step::Claim { nth, .. } => {
                            let ids = account_nf_ids(&node, a, v.claim_nft);
                            if ids.is_empty() {
                                None
                            } else {
                                let id = ids[*nth as usize % ids.len()].clone();
                                Some(
                                    b.withdraw_non_fungibles_from_account(a, v.claim_nft, [id])
                                        .take_all_from_worktop(v.claim_nft, "c")
                                        .with_name_lookup(|b, l| b.claim_xrd(v.addr, l.bucket("c")))
                                        .try_deposit_entire_worktop_or_abort(a, None)
                                        .build(),
                                )
                            }
                        }
                        Step::StakeUnstake { amounts, .. } => {
                            let mut bb = Some(b);
                            for (i, amt) in amounts.iter().enumerate() {
                                bb = match (bb, dec(amt)) {
                                    (Some(b), Some(x)) => {
                                        let name = format!("s{}", i);
                                        Some(b.withdraw_from_account(a, XRD, x).take_all_from_worktop(XRD, &name).with_name_lookup(|b, l| b.stake_validator(v.addr, l.bucket(&name))))
                                    }
                                    _ => None,
                                };
                            }
                            bb.map(|b| b.take_all_from_worktop(v.stake_unit, "u").with_name_lookup(|b, l| b.unstake_validator(v.addr, l.bucket("u"))).try_deposit_entire_worktop_or_abort(a, None).build())
                        }
                        _ => unreachable!(),
                    };
                    (m, signer, Some(val as usize))
                }
            };
            // ---- execute
            let pre_vals: Vec<VObs> = vals.iter().map(|v| observe(&node.db, v)).collect();
            let pre_xrd_supply = attos(supply(&node.db, &XRD));
            let pre_rewards = rewards_vault(&node.db).and_then(|v| fungible_vault_balance(&node.db, &v)).map(attos).unwrap_or_default();
            let signer_acct = view.parties[signer].account;
            let pre_actor_xrd = attos(balance(&node, signer_acct, XRD));
            let pre_claims: BTreeSet<NonFungibleLocalId> = vix.and_then(|i| vals.get(i)).map(|v| account_nf_ids(&node, signer_acct, v.claim_nft).into_iter().collect()).unwrap_or_default();
            let pre_claim_data: BTreeMap<NonFungibleLocalId, UnstakeData> = vix.and_then(|i| vals.get(i)).map(|v| pre_claims.iter().filter_map(|id| claim_data(&node.db, v.claim_nft, id).map(|d| (id.clone(), d))).collect()).unwrap_or_default();
            let receipt = if system {
                let Step::Round { leader, gap_leaders, dt_ms } = &step else { unreachable!() };
                let (round, _) = consensus_round(&node.db);
                clock_ms += *dt_ms as i64;
                let m = ManifestBuilder::new_system_v1()
                    .call_method(
                        CONSENSUS_MANAGER,
                        CONSENSUS_MANAGER_NEXT_ROUND_IDENT,
                        ConsensusManagerNextRoundInput {
                            round: Round::of(round + 1 + gap_leaders.len() as u64),
                            proposer_timestamp_ms: clock_ms,
                            leader_proposal_history: LeaderProposalHistory { gap_round_leaders: gap_leaders.clone(), current_leader: *leader, is_fallback: false },
                        },
                    )
                    .build();
                let nonce = node.next_nonce();
                let exe = system_executable(m, nonce, &node.validator);
                let mut o = ExecOpts::default();
                o.system_tx = true;
                stats.evaluations += 1;
                match node.execute(&exe, &o) {
                    Ok(r) => r,
                    Err(p) => {
                        violation = Some(mk("c42.engine_panicked", format!("{:?}: {}", step, p)));
                        break;
                    }
                }
            } else {
                let Some(m) = manifest else { continue };
                let nonce = node.next_nonce();
                let Ok(exe) = TxSpec::new(m, nonce, btreeset![view.parties[signer].proof.clone()]).build(&node.validator) else { continue };
                let mut o = ExecOpts::default();
                o.inject_at = fault;
                o.kernel_trace = std::env::var("VERIF_KERNEL_TRACE").is_ok();
                stats.evaluations += 1;
                match node.execute(&exe, &o) {
                    Ok(r) => r,
                    Err(p) => {
                        violation = Some(mk("c42.engine_panicked", format!("{:?}: {}", step, p)));
                        break;
                    }
                }
            };
            if fault.is_some() && !system && super::injection_fired(&receipt) {
                stats.bump("fault.inject_costing_error_fired");
            }
            let success = ok(&receipt);
            node.commit(&receipt);
            if std::env::var("VERIF_DEBUG").is_ok() && !success {
                let why = match &receipt.result {
                    TransactionResult::Commit(c) => format!("{:?}", c.outcome),
                    TransactionResult::Reject(r) => format!("{:?}", r.reason),
                    TransactionResult::Abort(a) => format!("{:?}", a.reason),
                };
                eprintln!("DEBUG {:?} -> {}", step, &why[..why.len().min(400)]);
            }
            // new validator?
            if let (Step::NewValidator { .. }, true, TransactionResult::Commit(c)) = (&step, success, &receipt.result) {
                if let Some(a) = c.new_component_addresses().first() {
                    if let Some(v) = val_from(&node.db, *a, &view) {
                        vals.push(v);
                        stats.bump("ok.NewValidator");
                    }
                }
            }
            let post_vals: Vec<VObs> = vals.iter().take(pre_vals.len()).map(|v| observe(&node.db, v)).collect();
            let kind_code = match &step {
                Step::Fund { .. } => 0u64,
                Step::NewValidator { .. } => 1,
                Step::Register { .. } => 2,
                Step::Accept { .. } => 3,
                Step::Stake { .. } => 4,
                Step::Unstake { .. } => 5,
                Step::Claim { .. } => 6,
                Step::StakeUnstake { .. } => 7,
                Step::UpdateFee { .. } => 8,
                Step::LockOwner { .. } => 9,
                Step::StartUnlock { .. } => 10,
                Step::FinishUnlock { .. } => 11,
                Step::Round { .. } => 12,
                Step::Restart => 13,
            };
            let state_class = vix.and_then(|i| pre_vals.get(i)).map(|o| (o.stake.is_zero() as u64) + 2 * (o.units.is_zero() as u64) + 4 * (o.registered as u64) + 8 * ((o.stake != o.units) as u64)).unwrap_or(99);
            stats.distinct.insert(prng::mix(prng::mix(kind_code, state_class), success as u64));
            digest = prng::mix(digest, prng::fnv64(format!("{:?}", post_vals).as_bytes()));
            // ---- oracle
            if !success {
                if !system && pre_vals.iter().zip(post_vals.iter()).any(|(a, b)| a.stake != b.stake || a.units != b.units || a.pending != b.pending) {
                    violation = Some(mk("c42.failed_tx_changed_stake", format!("step {:?} did not succeed but validator stake / unit supply / pending amounts changed: {:?} -> {:?}", step, pre_vals, post_vals)));
                    break;
                }
                continue;
            }
            // untouched validators stay untouched in user transactions
            if !system {
                let mut bad = None;
                for (i, (a, b)) in pre_vals.iter().zip(post_vals.iter()).enumerate() {
                    if Some(i) != vix && (a.stake != b.stake || a.units != b.units || a.pending != b.pending) {
                        bad = Some(i);
                    }
                }
                if let Some(i) = bad {
                    violation = Some(mk("c42.bystander_validator_changed", format!("step {:?} changed validator #{}: {:?} -> {:?}", step, i, pre_vals[i], post_vals[i])));
                    break;
                }
            }
            let one = BigInt::from(10u64).pow(18);
            match &step {
                Step::Stake { amount, as_owner, .. } => {
                    let (pre, post) = (&pre_vals[vix.unwrap()], &post_vals[vix.unwrap()]);
                    let x = attos(dec(amount).unwrap());
                    let u = &post.units - &pre.units;
                    stats.bump(if *as_owner { "ok.StakeAsOwner" } else { "ok.Stake" });
                    if &post.stake - &pre.stake != x || post.pending != pre.pending {
                        violation = Some(mk("c42.stake_vault_delta", format!("stake of {} attos: stake vault {} -> {}, pending {} -> {}", x, pre.stake, post.stake, pre.pending, post.pending)));
                        break;
                    }
                    if pre.stake.is_zero() {
                        stats.bump("stake.first_stake");
                        if u != x {
                            violation = Some(mk("c42.stake_units_not_proportional", format!("first stake of {} attos into an empty stake pool minted {} units (unit supply before {})", x, u, pre.units)));
                            break;
                        }
                    } else {
                        if pre.stake != pre.units {
                            stats.bump("stake.ratio_not_one");
                        }
                        let upper_ok = &u * &pre.stake <= &x * &pre.units;
                        let lower = (&x * &pre.units) / &pre.stake - &x / &one - BigInt::from(2);
                        if !upper_ok || u < lower {
                            violation = Some(mk("c42.stake_units_not_proportional", format!("stake of {} attos into a pool of {} XRD-attos with {} units minted {} units (proportional share {})", x, pre.stake, pre.units, u, (&x * &pre.units) / &pre.stake)));
                            break;
                        }
                    }
                }
                Step::Unstake { amount, .. } => {
                    let v = &vals[vix.unwrap()];
                    let (pre, post) = (&pre_vals[vix.unwrap()], &post_vals[vix.unwrap()]);
                    let u = attos(dec(amount).unwrap());
                    stats.bump("ok.Unstake");
                    let new_ids: Vec<NonFungibleLocalId> = account_nf_ids(&node, signer_acct, v.claim_nft).into_iter().filter(|i| !pre_claims.contains(i)).collect();
                    let a: BigInt = new_ids.iter().filter_map(|id| claim_data(&node.db, v.claim_nft, id)).map(|d| attos(d.claim_amount)).sum();
                    if &pre.units - &post.units != u || &pre.stake - &post.stake != a || &post.pending - &pre.pending != a || new_ids.len() != 1 {
                        violation = Some(mk("c42.unstake_bookkeeping", format!("unstake of {} units: units {} -> {}, stake vault {} -> {}, pending {} -> {}, {} new claim(s) worth {}", u, pre.units, post.units, pre.stake, post.stake, pre.pending, post.pending, new_ids.len(), a)));
                        break;
                    }
                    if &a * &pre.units > &u * &pre.stake {
                        violation = Some(mk("c42.unstake_more_than_share", format!("unstake of {} of {} units of a stake pool of {} attos records a claim of {} attos (proportional share {})", u, pre.units, pre.stake, a, (&u * &pre.stake) / &pre.units)));
                        break;
                    }
                    if !((&u * &pre.stake) % &pre.units).is_zero() {
                        stats.bump("unstake.truncated");
                    }
                }
                Step::Claim { .. } => {
                    let v = &vals[vix.unwrap()];
                    let (pre, post) = (&pre_vals[vix.unwrap()], &post_vals[vix.unwrap()]);
                    stats.bump("ok.Claim");
                    let now: BTreeSet<NonFungibleLocalId> = account_nf_ids(&node, signer_acct, v.claim_nft).into_iter().collect();
                    let gone: Vec<&NonFungibleLocalId> = pre_claims.iter().filter(|i| !now.contains(*i)).collect();
                    let owed: BigInt = gone.iter().filter_map(|id| pre_claim_data.get(*id)).map(|d| attos(d.claim_amount)).sum();
                    let got = attos(balance(&node, signer_acct, XRD)) - &pre_actor_xrd;
                    if gone.len() != 1 || got != owed || &pre.pending - &post.pending != owed || pre.stake != post.stake || pre.units != post.units {
                        violation = Some(mk("c42.claim_pays_other_amount", format!("claim of {} claim NFT(s) recorded at {} attos paid {} attos; pending {} -> {}, stake {} -> {}", gone.len(), owed, got, pre.pending, post.pending, pre.stake, post.stake)));
                        break;
                    }
                }
                Step::StakeUnstake { amounts, .. } => {
                    let v = &vals[vix.unwrap()];
                    let (pre, post) = (&pre_vals[vix.unwrap()], &post_vals[vix.unwrap()]);
                    stats.bump("ok.StakeUnstake");
                    let x: BigInt = amounts.iter().map(|a| attos(dec(a).unwrap())).sum();
                    let new_ids: Vec<NonFungibleLocalId> = account_nf_ids(&node, signer_acct, v.claim_nft).into_iter().filter(|i| !pre_claims.contains(i)).collect();
                    let a: BigInt = new_ids.iter().filter_map(|id| claim_data(&node.db, v.claim_nft, id)).map(|d| attos(d.claim_amount)).sum();
                    if a > x {
                        violation = Some(mk("c42.stake_then_unstake_gained", format!("staking {} attos in {} step(s) and unstaking the minted units at once records a claim of {} attos (pool before: {} attos, {} units)", x, amounts.len(), a, pre.stake, pre.units)));
                        break;
                    }
                    if post.units != pre.units || &post.stake - &pre.stake != &x - &a || &post.pending - &pre.pending != a {
                        violation = Some(mk("c42.unstake_bookkeeping", format!("stake {} then unstake: units {} -> {}, stake vault {} -> {}, pending {} -> {}, claim {}", x, pre.units, post.units, pre.stake, post.stake, pre.pending, post.pending, a)));
                        break;
                    }
                }
                Step::Register { on, .. } => stats.bump(if *on { "ok.Register" } else { "ok.Unregister" }),
                Step::UpdateFee { .. } => stats.bump("ok.UpdateFee"),
                Step::LockOwner { .. } => stats.bump("ok.LockOwner"),
                Step::Round { .. } => {
                    stats.bump("ok.Round");
                    let TransactionResult::Commit(c) = &receipt.result else { continue };
                    let mut epoch_event: Option<EpochChangeEvent> = None;
                    let mut rewards_applied = BigInt::from(0);
                    for (EventTypeIdentifier(emitter, name), payload) in &c.application_events {
                        match name.as_str() {
                            "EpochChangeEvent" => epoch_event = scrypto_decode(payload).ok(),
                            "ValidatorRewardAppliedEvent" => {
                                if let Ok(e) = scrypto_decode::<ValidatorRewardAppliedEvent>(payload) {
                                    rewards_applied += attos(e.amount);
                                }
                            }
                            "ValidatorEmissionAppliedEvent" => {
                                if let Ok(e) = scrypto_decode::<ValidatorEmissionAppliedEvent>(payload) {
                                    if e.proposals_missed > 0 {
                                        stats.bump("epoch.unreliable_validator");
                                    }
                                }
                            }
                            _ => {}
                        }
                        let _ = emitter;
                    }
                    // (XRD does not track its total supply: minted = XRD mint events of this transaction)
                    let mut minted = BigInt::from(0);
                    for (EventTypeIdentifier(emitter, name), payload) in &c.application_events {
                        if let (Emitter::Method(n, ModuleId::Main), "MintFungibleResourceEvent") = (emitter, name.as_str()) {
                            if n == XRD.as_node_id() {
                                if let Ok(e) = scrypto_decode::<radix_engine::blueprints::resource::MintFungibleResourceEvent>(payload) {
                                    minted += attos(e.amount);
                                }
                            }
                        }
                    }
                    let _ = &pre_xrd_supply;
                    if minted > emission_cap {
                        violation = Some(mk("c42.emission_exceeds_configured", format!("the round transaction minted {} XRD-attos; configured emission per epoch is {}", minted, emission_cap)));
                        break;
                    }
                    let Some(ev) = epoch_event else {
                        if !minted.is_zero() {
                            violation = Some(mk("c42.emission_exceeds_configured", format!("{} XRD-attos minted in a round without epoch change", minted)));
                            break;
                        }
                        continue;
                    };
                    stats.bump("epoch.changes");
                    if minted.is_positive() {
                        stats.bump("epoch.emission_minted");
                    }
                    let post_rewards = rewards_vault(&node.db).and_then(|v| fungible_vault_balance(&node.db, &v)).map(attos).unwrap_or_default();
                    if rewards_applied.is_positive() {
                        stats.bump("epoch.rewards_applied");
                    }
                    if rewards_applied > pre_rewards || &pre_rewards - &post_rewards != rewards_applied || post_rewards.is_negative() {
                        violation = Some(mk("c42.rewards_exceed_vault", format!("rewards applied {} attos; reward vault {} -> {}", rewards_applied, pre_rewards, post_rewards)));
                        break;
                    }
                    // stake vaults grew by exactly emission + rewards
                    let grew: BigInt = pre_vals.iter().zip(post_vals.iter()).map(|(a, b)| &b.stake - &a.stake).sum();
                    if grew != &minted + &rewards_applied {
                        violation = Some(mk("c42.epoch_distribution_mismatch", format!("stake vaults grew by {} but emission minted {} + rewards {}", grew, minted, rewards_applied)));
                        break;
                    }
                    // the next active set
                    let set: Vec<(ComponentAddress, BigInt)> = ev.validator_set.validators_by_stake_desc.iter().map(|(a, v)| (*a, attos(v.stake))).collect();
                    if set.len() as u32 > cfg.max_validators {
                        violation = Some(mk("c42.validator_set_too_large", format!("{} validators in the set, max_validators is {}", set.len(), cfg.max_validators)));
                        break;
                    }
                    let mut eligible: BTreeMap<ComponentAddress, BigInt> = BTreeMap::new();
                    for v in &vals {
                        let o = observe(&node.db, v);
                        if o.registered && o.stake.is_positive() {
                            eligible.insert(v.addr, o.stake);
                        }
                    }
                    let mut bad = None;
                    for (i, (a, s)) in set.iter().enumerate() {
                        match eligible.get(a) {
                            None => bad = Some(format!("{:?} is in the set but is not a registered validator with positive stake", a)),
                            Some(actual) if actual != s => bad = Some(format!("{:?} is listed with stake {} but its stake vault holds {}", a, s, actual)),
                            _ => {}
                        }
                        if i > 0 && set[i - 1].1 < *s {
                            bad = Some(format!("the set is not in descending stake order at position {}", i));
                        }
                    }
                    if set.iter().map(|x| x.0).collect::<BTreeSet<_>>().len() != set.len() {
                        bad = Some("a validator is listed twice".into());
                    }
                    if let Some(min_in) = set.iter().map(|(_, s)| bucket_100k(s)).min() {
                        for (a, s) in &eligible {
                            if !set.iter().any(|(x, _)| x == a) && bucket_100k(s) > min_in {
                                bad = Some(format!("{:?} (stake {}) is registered and excluded although an included validator lies in a lower 100k-XRD bucket", a, s));
                            }
                        }
                    }
                    if set.len() < eligible.len().min(cfg.max_validators as usize) {
                        bad = Some(format!("only {} validators in the set although {} are eligible and max_validators is {}", set.len(), eligible.len(), cfg.max_validators));
                    }
                    if set.len() < eligible.len() {
                        stats.bump("epoch.set_smaller_than_eligible");
                    }
                    if let Some(d) = bad {
                        violation = Some(mk("c42.validator_set_wrong", format!("epoch {:?}: {}; set {:?}; eligible {:?}", ev.epoch, d, set, eligible)));
                        break;
                    }
                }
                _ => {}
            }
        }
        RunOutcome { steps: steps.taken, violation, stats, digest }
    }
}
