//! C44 — consensus time and rounds only move forward. The simulated consensus driver issues
//! next_round with skewed, repeated, backward- and far-forward-jumping timestamps (F10) and
//! regressing / inconsistent rounds (F11) on a node with a randomised genesis configuration.

use super::node::*;
use crate::simkit::*;
use radix_common::prelude::*;
use radix_engine::blueprints::consensus_manager::*;
use radix_engine::system::system_substates::FieldSubstate;
use radix_engine::transaction::*;
use radix_engine::updates::BabylonSettings;
use radix_engine_interface::blueprints::transaction_processor::InstructionOutput;
use radix_engine_interface::prelude::*;
use radix_substate_store_interface::interface::SubstateDatabaseExtensions;
use radix_transactions::prelude::*;
use serde::{Deserialize, Serialize};
use serde_json::json;

#[derive(Clone, Debug, Serialize, Deserialize)]
pub enum Step {
    /// next_round(round = current + round_delta, timestamp = stored ms + dt_ms or an absolute value)
    Round { round_delta: i64, dt_ms: i64, abs_ts: Option<i64>, gaps_off_by: i8, leader: u8 },
    /// a user transaction asking the ledger clock
    GetTime { second_precision: bool },
    /// compare_current_time(instant = stored clock + offset seconds, precision, operator)
    Compare { second_precision: bool, op: u8, offset_s: i64 },
}

#[derive(Clone, Debug, Serialize, Deserialize)]
pub struct Cfg {
    pub n_steps: usize,
    pub min_rounds: u64,
    pub max_rounds: u64,
    pub target_ms: u64,
    pub initial_time_ms: i64,
    pub genesis_epoch: u64,
}

pub struct C44;

#[derive(Clone, Copy, Debug, PartialEq)]
struct Clock {
    epoch: u64,
    round: u64,
    ms: i64,
    minute: i32,
}

fn read_clock(node: &Node) -> Clock {
    let f = |ix: u8| node.db.get_raw_substate(CONSENSUS_MANAGER.as_node_id(), MAIN_BASE_PARTITION, SubstateKey::Field(ix));
    let state: FieldSubstate<ConsensusManagerStateFieldPayload> = scrypto_decode(&f(ConsensusManagerField::State.field_index()).unwrap()).unwrap();
    let state = state.into_payload().fully_update_and_into_latest_version();
    let ms: FieldSubstate<ConsensusManagerProposerMilliTimestampFieldPayload> = scrypto_decode(&f(ConsensusManagerField::ProposerMilliTimestamp.field_index()).unwrap()).unwrap();
    let minute: FieldSubstate<ConsensusManagerProposerMinuteTimestampFieldPayload> = scrypto_decode(&f(ConsensusManagerField::ProposerMinuteTimestamp.field_index()).unwrap()).unwrap();
    Clock {
        epoch: state.epoch.number(),
        round: state.round.number(),
        ms: ms.into_payload().fully_update_and_into_latest_version().epoch_milli,
        minute: minute.into_payload().fully_update_and_into_latest_version().epoch_minute,
    }
}

impl World for C44 {
    type Step = Step;
    type Cfg = Cfg;
    fn property(&self) -> &'static str {
        "C44"
    }
    fn world(&self) -> &'static str {
        "ledger"
    }
    fn rule(&self) -> String {
        "Per run: a node bootstrapped from a randomised genesis (epoch change condition min/max rounds and target duration, initial time, genesis epoch). The simulated consensus driver issues real next_round system transactions with timestamps equal, +1 ms, on and around minute boundaries, hours/days ahead, backward by 1 ms..days, i64 extremes (F10), and rounds equal / lower / higher with consistent and inconsistent gap histories (F11); clients query get_current_time and compare_current_time at both precisions with instants around the clock. Oracle: model (epoch, round, ms, minute) read back from the store after every transaction: a lower timestamp, a non-increasing round or an inconsistent gap history must fail and leave the four values unchanged; after a success either (epoch same, round = requested) or (epoch + 1, round 0); ms = requested timestamp; minute never decreases and equals ms / 60000; time queries equal the model's answer. evaluations = engine executions; distinct = distinct (outcome, round delta class, timestamp delta class, epoch changed?) tuples.".into()
    }
    fn assumptions(&self) -> Vec<String> {
        vec![
            "One genesis validator (leader index 0 is the only valid leader; other indices exercise the failure path).".into(),
            "Timestamps above i32::MAX minutes are expected to fail (documented InvalidConsensusTime); the oracle only requires that they leave the clock unchanged or set it exactly.".into(),
        ]
    }
    fn real_vs_stub(&self) -> serde_json::Value {
        json!({"real": ["ConsensusManager next_round / check_non_decreasing_and_update_timestamps / epoch_change / get_current_time / compare_current_time", "genesis bootstrap with custom ConsensusManagerConfig", "engine"],
               "stub_or_ours": ["consensus driver and its clock (the only clock the system sees)", "clients"]})
    }
    fn probes(&self) -> Vec<&'static str> {
        vec![
            "round.ok",
            "round.epoch_changed",
            "round.rejected_backward_time",
            "round.rejected_round_not_increasing",
            "round.rejected_inconsistent_gaps",
            "round.same_timestamp_accepted",
            "round.minute_boundary_crossed",
            "round.skipped_rounds_accepted",
            "time.get",
            "time.compare",
            "fault.clock_backward_jump",
            "fault.clock_far_forward_jump",
        ]
    }
    fn budget(&self, tier: Tier) -> (u64, u64) {
        match tier {
            Tier::Quick => (700, 45),
            Tier::Thorough => (10_000, 900),
        }
    }
    fn gen_cfg(&self, rng: &mut Rng, _tier: Tier, _run: u64) -> Cfg {
        let min_rounds = *rng.pick(&[1u64, 1, 2, 5, 20]);
        Cfg {
            n_steps: rng.range(30, 150) as usize,
            min_rounds,
            max_rounds: min_rounds + *rng.pick(&[0u64, 1, 10, 100]),
            target_ms: *rng.pick(&[0u64, 1000, 60_000, 300_000]),
            initial_time_ms: *rng.pick(&[0i64, 1, 59_999, 60_000, 1_700_000_000_000]),
            genesis_epoch: *rng.pick(&[1u64, 2, 1000]),
        }
    }

    fn run(&self, cfg: &Cfg, mode: Mode<Step>) -> RunOutcome<Step> {
        let mut steps = Steps::new(mode);
        let mut stats = Stats::default();
        let pub_key = Secp256k1PrivateKey::from_u64(1).unwrap().public_key();
        let mut cm = ConsensusManagerConfig::test_default();
        cm.epoch_change_condition = EpochChangeCondition {
            min_round_count: cfg.min_rounds,
            max_round_count: cfg.max_rounds.max(cfg.min_rounds),
            target_duration_millis: cfg.target_ms,
        };
        let mut settings = BabylonSettings::single_validator_and_staker(
            pub_key,
            Decimal::one(),
            Decimal::zero(),
            ComponentAddress::preallocated_account_from_public_key(&pub_key),
            Epoch::of(cfg.genesis_epoch),
            cm,
        );
        settings.initial_time_ms = cfg.initial_time_ms;
        let mut node = Node::from_genesis(settings);
        let mut digest = 0u64;
        let mut violation = None;
        let mut n = 0usize;
        loop {
            let step = steps.next(|rng| {
                if n >= cfg.n_steps {
                    return None;
                }
                Some(match rng.below(10) {
                    0..=6 => {
                        let dt = match rng.below(16) {
                            0..=2 => 0,
                            3..=4 => 1,
                            5 => 59_999,
                            6 => 60_000,
                            7 => 60_001,
                            8 => rng.range(1, 10_000) as i64,
                            9 => 3_600_000,
                            10 => 86_400_000 * rng.range(1, 400) as i64,
                            11 => -1,
                            12 => -(rng.range(1, 86_400_000) as i64),
                            13 => -86_400_000 * rng.range(1, 30) as i64,
                            _ => rng.range(1, 120_000) as i64,
                        };
                        let abs = match rng.below(40) {
                            0 => Some(i64::MAX),
                            1 => Some(i64::MIN),
                            2 => Some(0),
                            3 => Some(-1),
                            4 => Some((i32::MAX as i64) * 60_000),
                            5 => Some((i32::MAX as i64 + 1) * 60_000),
                            _ => None,
                        };
                        Step::Round {
                            round_delta: *rng.pick(&[1i64, 1, 1, 1, 1, 2, 5, 0, -1, -3, 100]),
                            dt_ms: dt,
                            abs_ts: abs,
                            gaps_off_by: *rng.pick(&[0i8, 0, 0, 0, 0, 0, 1, -1]),
                            leader: *rng.pick(&[0u8, 0, 0, 0, 0, 0, 0, 1]),
                        }
                    }
                    7 => Step::GetTime { second_precision: rng.chance(1, 2) },
                    _ => Step::Compare { second_precision: rng.chance(1, 2), op: rng.below(5) as u8, offset_s: *rng.pick(&[0i64, 0, 1, -1, 59, 60, 61, -59, -60, -61, 3600, -3600]) },
                })
            });
            n += 1;
            let Some(step) = step else { break };
            let ix = steps.index();
            let fail = |monitor: &str, detail: String| Violation {
                monitor: monitor.into(),
                step: ix,
                detail,
                signature: monitor.into(),
            };
            let before = read_clock(&node);
            match step {
                Step::Round { round_delta, dt_ms, abs_ts, gaps_off_by, leader } => {
                    let req_round = (before.round as i64 + round_delta).max(0) as u64;
                    let ts = abs_ts.unwrap_or_else(|| before.ms.saturating_add(dt_ms));
                    let true_gaps = req_round.saturating_sub(before.round + 1) as i64;
                    let gaps = (true_gaps + gaps_off_by as i64).clamp(0, 300) as usize;
                    let m = ManifestBuilder::new_system_v1()
                        .call_method(
                            CONSENSUS_MANAGER,
                            CONSENSUS_MANAGER_NEXT_ROUND_IDENT,
                            ConsensusManagerNextRoundInput {
                                round: Round::of(req_round),
                                proposer_timestamp_ms: ts,
                                leader_proposal_history: LeaderProposalHistory {
                                    gap_round_leaders: (0..gaps).map(|_| 0).collect(),
                                    current_leader: leader,
                                    is_fallback: false,
                                },
                            },
                        )
                        .build();
                    let nonce = node.next_nonce();
                    let exe = system_executable(m, nonce, &node.validator);
                    let mut o = ExecOpts::default();
                    o.system_tx = true;
                    o.kernel_trace = std::env::var("VERIF_KERNEL_TRACE").is_ok();
                    stats.evaluations += 1;
                    let r = match node.execute(&exe, &o) {
                        Ok(r) => r,
                        Err(_) => {
                            stats.bump("note.other_property.c11.engine_panicked");
                            break;
                        }
                    };
                    if ts < before.ms {
                        stats.bump("fault.clock_backward_jump");
                    }
                    if ts > before.ms.saturating_add(86_400_000) {
                        stats.bump("fault.clock_far_forward_jump");
                    }
                    let success = matches!(&r.result, TransactionResult::Commit(c) if matches!(c.outcome, TransactionOutcome::Success(_)));
                    node.commit(&r);
                    let after = read_clock(&node);
                    let gaps_consistent = gaps as i64 == true_gaps && req_round > before.round;
                    let must_fail = ts < before.ms || req_round <= before.round || !gaps_consistent;
                    let extreme = ts / 60_000 > i32::MAX as i64;
                    stats.distinct.insert(prng::mix(
                        prng::mix(success as u64, (round_delta.clamp(-2, 3) + 2) as u64),
                        prng::mix(if dt_ms < 0 { 0 } else if dt_ms == 0 { 1 } else if dt_ms < 60_000 { 2 } else { 3 }, (after.epoch != before.epoch) as u64 + 2 * abs_ts.is_some() as u64),
                    ));
                    if must_fail && success {
                        violation = Some(fail(
                            "c44.regression_accepted",
                            format!("next_round(round {}, timestamp {}, {} gap leaders) succeeded although stored round is {} and stored timestamp {} (gaps expected {})", req_round, ts, gaps, before.round, before.ms, true_gaps),
                        ));
                        break;
                    }
                    if !success {
                        if after != before {
                            violation = Some(fail("c44.failed_round_changed_clock", format!("failed next_round changed the stored clock {:?} -> {:?}", before, after)));
                            break;
                        }
                        if !must_fail && !extreme && leader == 0 {
                            violation = Some(fail(
                                "c44.valid_round_rejected",
                                format!("next_round(round {}, timestamp {}) with consistent history failed on clock {:?}: {}", req_round, ts, before, outcome_str(&r)),
                            ));
                            break;
                        }
                        stats.bump(if ts < before.ms {
                            "round.rejected_backward_time"
                        } else if req_round <= before.round {
                            "round.rejected_round_not_increasing"
                        } else {
                            "round.rejected_inconsistent_gaps"
                        });
                    } else {
                        stats.bump("round.ok");
                        if ts == before.ms {
                            stats.bump("round.same_timestamp_accepted");
                        }
                        if true_gaps > 0 {
                            stats.bump("round.skipped_rounds_accepted");
                        }
                        let epoch_changed = after.epoch != before.epoch;
                        if epoch_changed {
                            stats.bump("round.epoch_changed");
                            if after.epoch != before.epoch + 1 || after.round != 0 {
                                violation = Some(fail("c44.epoch_change_not_plus_one_round_zero", format!("{:?} -> {:?}", before, after)));
                                break;
                            }
                        } else if after.round != req_round {
                            violation = Some(fail("c44.round_not_recorded", format!("requested round {} but stored {:?} (before {:?})", req_round, after, before)));
                            break;
                        }
                        if after.ms != ts {
                            violation = Some(fail("c44.timestamp_not_recorded", format!("requested timestamp {} but stored {}", ts, after.ms)));
                            break;
                        }
                        if after.minute != before.minute {
                            stats.bump("round.minute_boundary_crossed");
                        }
                    }
                    // history invariants
                    if after.ms < before.ms || after.minute < before.minute {
                        violation = Some(fail("c44.clock_decreased", format!("{:?} -> {:?}", before, after)));
                        break;
                    }
                    if after.ms >= 0 && (after.ms / 60_000) as i64 != after.minute as i64 {
                        violation = Some(fail("c44.minute_clock_not_rounded_ms", format!("stored ms {} but minute clock {}", after.ms, after.minute)));
                        break;
                    }
                    if after.epoch == before.epoch && after.round < before.round {
                        violation = Some(fail("c44.round_decreased", format!("{:?} -> {:?}", before, after)));
                        break;
                    }
                    digest = prng::mix(digest, prng::mix(after.ms as u64, after.round ^ (after.epoch << 20)));
                }
                Step::GetTime { second_precision } => {
                    let precision = if second_precision { TimePrecision::Second } else { TimePrecision::Minute };
                    let m = ManifestBuilder::new()
                        .lock_fee_from_faucet()
                        .call_method(CONSENSUS_MANAGER, CONSENSUS_MANAGER_GET_CURRENT_TIME_IDENT, ConsensusManagerGetCurrentTimeInputV2 { precision })
                        .build();
                    let nonce = node.next_nonce();
                    let Ok(exe) = TxSpec::new(m, nonce, btreeset![]).build(&node.validator) else { continue };
                    stats.evaluations += 1;
                    let Ok(r) = node.execute(&exe, &ExecOpts::default()) else { break };
                    if let TransactionResult::Commit(c) = &r.result {
                        if let TransactionOutcome::Success(out) = &c.outcome {
                            let got: Option<Instant> = match out.get(1) {
                                Some(InstructionOutput::CallReturn(bytes)) => scrypto_decode(bytes).ok(),
                                _ => None,
                            };
                            let exp = if second_precision { before.ms / 1000 } else { before.minute as i64 * 60 };
                            stats.bump("time.get");
                            if got.map(|i| i.seconds_since_unix_epoch) != Some(exp) {
                                violation = Some(fail("c44.get_current_time_wrong", format!("get_current_time({:?}) = {:?}, stored clock {:?} so {} expected", precision, got, before, exp)));
                                break;
                            }
                        }
                    }
                    node.commit(&r);
                }
                Step::Compare { second_precision, op, offset_s } => {
                    let precision = if second_precision { TimePrecision::Second } else { TimePrecision::Minute };
                    let now_s = if second_precision { before.ms / 1000 } else { before.minute as i64 * 60 };
                    if now_s + offset_s < 0 || (now_s + offset_s) / 60 >= i32::MAX as i64 - 1 {
                        // (nor about instants beyond the last representable minute, where the
                        // implementation saturates by design)
                        // rounding of instants before 1970 is not what the property is about
                        continue;
                    }
                    let instant = Instant::new(now_s + offset_s);
                    let operator = [TimeComparisonOperator::Eq, TimeComparisonOperator::Lt, TimeComparisonOperator::Lte, TimeComparisonOperator::Gt, TimeComparisonOperator::Gte][op as usize % 5];
                    let m = ManifestBuilder::new()
                        .lock_fee_from_faucet()
                        .call_method(
                            CONSENSUS_MANAGER,
                            CONSENSUS_MANAGER_COMPARE_CURRENT_TIME_IDENT,
                            ConsensusManagerCompareCurrentTimeInputV2 { instant, precision, operator },
                        )
                        .build();
                    let nonce = node.next_nonce();
                    let Ok(exe) = TxSpec::new(m, nonce, btreeset![]).build(&node.validator) else { continue };
                    stats.evaluations += 1;
                    let Ok(r) = node.execute(&exe, &ExecOpts::default()) else { break };
                    if let TransactionResult::Commit(c) = &r.result {
                        if let TransactionOutcome::Success(out) = &c.outcome {
                            let got: Option<bool> = match out.get(1) {
                                Some(InstructionOutput::CallReturn(bytes)) => scrypto_decode(bytes).ok(),
                                _ => None,
                            };
                            // the instant is compared at the same precision: minute precision rounds the
                            // given instant down to the minute as well
                            let other = if second_precision { now_s + offset_s } else { (now_s + offset_s).div_euclid(60) * 60 };
                            let exp = match operator {
                                TimeComparisonOperator::Eq => now_s == other,
                                TimeComparisonOperator::Lt => now_s < other,
                                TimeComparisonOperator::Lte => now_s <= other,
                                TimeComparisonOperator::Gt => now_s > other,
                                TimeComparisonOperator::Gte => now_s >= other,
                            };
                            stats.bump("time.compare");
                            if got != Some(exp) {
                                violation = Some(fail(
                                    "c44.compare_current_time_wrong",
                                    format!("compare_current_time(instant {} s, {:?}, {:?}) = {:?} but the stored clock is {} s (expected {})", now_s + offset_s, precision, operator, got, now_s, exp),
                                ));
                                break;
                            }
                        }
                    }
                    node.commit(&r);
                }
            }
        }
        let c = read_clock(&node);
        stats.sim_time_ms = (c.ms - cfg.initial_time_ms).max(0) as u64;
        RunOutcome {
            steps: steps.taken,
            violation,
            stats,
            digest,
        }
    }
}

fn outcome_str(r: &TransactionReceipt) -> String {
    let s = match &r.result {
        TransactionResult::Commit(c) => format!("{:?}", c.outcome),
        TransactionResult::Reject(rj) => format!("rejected: {:?}", rj.reason),
        TransactionResult::Abort(a) => format!("aborted: {:?}", a.reason),
    };
    s.chars().take(300).collect()
}
