//! C32 / C33 — signed payloads under transport corruption. Clients emit valid V1 / V2
//! notarized transactions; the simulated transport corrupts them blindly (bit flips, byte
//! substitution, truncation, extension, length-prefix edits, splices) or as a tampering relay
//! (decode, change exactly one field, re-encode without re-signing), swaps signatures between
//! transactions, duplicates signers; the node prepares and validates what arrives.

use super::node::*;
use crate::simkit::*;
use radix_common::prelude::*;
use radix_transactions::prelude::*;
use serde::{Deserialize, Serialize};
use serde_json::json;
use std::collections::{BTreeMap, BTreeSet};

#[derive(Clone, Debug, Serialize, Deserialize)]
pub enum Corrupt {
    None,
    BitFlips { positions: Vec<u32> },
    SetByte { pos: u32, val: u8 },
    Truncate { len: u32 },
    Extend { bytes: Hex },
    /// first `cut` bytes of this payload followed by the rest of payload `other`
    Splice { other: u8, cut: u32 },
    /// tampering relay: change exactly one field, re-encode, do not re-sign
    Tamper { field: u8, arg: u32 },
    /// adversarial: replace this transaction's intent signatures by those of payload `other`
    SwapIntentSignatures { other: u8 },
    /// adversarial: replace the notary signature by the one of payload `other`
    SwapNotarySignature { other: u8 },
    /// adversarial: duplicate the first intent signature
    DuplicateSigner,
    /// adversarial: append an intent signature by a small-order Ed25519 key (R = identity, s = 0),
    /// which a non-strict verifier accepts over any message
    ForgeEd25519,
}

#[derive(Clone, Debug, Serialize, Deserialize)]
pub enum Step {
    /// A client builds and signs a transaction: `signers` index the key pool (even = secp256k1,
    /// odd = ed25519); V2 transactions get `children` signed subintents.
    NewTx { v2: bool, signers: Vec<u8>, notary: u8, notary_is_signatory: bool, with_message: bool, with_blob: bool, children: u8, tip: u16 },
    Deliver { tx: u8, corrupt: Corrupt },
}

#[derive(Clone, Debug, Serialize, Deserialize)]
pub struct Cfg {
    pub n_steps: usize,
    pub corrupt_permille: u32,
}

pub struct Transport {
    pub id: &'static str,
}

enum Key {
    S(Secp256k1PrivateKey),
    E(Ed25519PrivateKey),
}

impl Key {
    fn of(ix: u8) -> Key {
        if ix % 2 == 0 {
            Key::S(Secp256k1PrivateKey::from_u64(500 + ix as u64).unwrap())
        } else {
            Key::E(Ed25519PrivateKey::from_u64(500 + ix as u64).unwrap())
        }
    }
    fn public(&self) -> PublicKey {
        match self {
            Key::S(k) => k.public_key().into(),
            Key::E(k) => k.public_key().into(),
        }
    }
    fn global_id(&self) -> NonFungibleGlobalId {
        NonFungibleGlobalId::from_public_key(&self.public())
    }
}

struct Original {
    raw: Vec<u8>,
    hashes: UserTransactionHashes,
    /// expected signer badge set per intent (root first, then subintents)
    signers: Vec<BTreeSet<NonFungibleGlobalId>>,
    /// built by the malicious client (carries a forged signature): must never be accepted
    malicious: bool,
}

fn build_tx(v2: bool, signers: &[u8], notary: u8, notary_is_signatory: bool, with_message: bool, with_blob: bool, children: u8, tip: u16, disc: u64) -> Option<(Vec<u8>, Vec<BTreeSet<NonFungibleGlobalId>>)> {
    let nk = Key::of(notary);
    // signer index 255 = a malicious client: besides the honest signatures it adds, before notarizing,
    // a message-independent Ed25519 "signature" (R = identity, s = 0) for the small-order public key
    // 01 00..00 - a key nobody holds, so it never signs anything and must never appear as a signer
    let forged = signers.contains(&255);
    let forged_sig = || {
        let mut pk = [0u8; 32];
        pk[0] = 1;
        let mut sig = [0u8; 64];
        sig[0] = 1;
        SignatureWithPublicKeyV1::Ed25519 { public_key: Ed25519PublicKey(pk), signature: Ed25519Signature(sig) }
    };
    let signer_keys: Vec<Key> = signers.iter().filter(|i| **i != 255).collect::<BTreeSet<_>>().into_iter().map(|i| Key::of(*i)).collect();
    let mut root_set: BTreeSet<NonFungibleGlobalId> = signer_keys.iter().map(|k| k.global_id()).collect();
    if notary_is_signatory {
        root_set.insert(nk.global_id());
    }
    let msg = || MessageV1::Plaintext(PlaintextMessageV1 { mime_type: "text/plain".into(), message: MessageContentsV1::String(format!("hello {}", disc)) });
    if !v2 {
        let mut mb = ManifestBuilder::new().lock_fee_from_faucet();
        if with_blob {
            mb = mb.then(|mut b| {
                b.add_blob(vec![1, 2, 3, disc as u8]);
                b
            });
        }
        let mut tb = TransactionV1Builder::new()
            .header(TransactionHeaderV1 {
                network_id: network().id,
                start_epoch_inclusive: Epoch::of(1),
                end_epoch_exclusive: Epoch::of(100),
                nonce: disc as u32,
                notary_public_key: nk.public(),
                notary_is_signatory,
                tip_percentage: tip,
            })
            .manifest(mb.build());
        if with_message {
            tb = tb.message(msg());
        }
        for k in &signer_keys {
            tb = match k {
                Key::S(k) => tb.sign(k),
                Key::E(k) => tb.sign(k),
            };
        }
        if forged {
            tb = tb.signer_signatures(vec![forged_sig()]);
        }
        tb = match &nk {
            Key::S(k) => tb.notarize(k),
            Key::E(k) => tb.notarize(k),
        };
        let raw = tb.build().to_raw().ok()?;
        Some((raw.as_slice().to_vec(), vec![root_set]))
    } else {
        let r = catch_quiet(|| {
            let mut sets = vec![root_set.clone()];
            let mut tb = TransactionV2Builder::new();
            for c in 0..children {
                let ck = Key::of(20 + c);
                let pb = PartialTransactionV2Builder::new()
                    .intent_header(IntentHeaderV2 {
                        network_id: network().id,
                        start_epoch_inclusive: Epoch::of(1),
                        end_epoch_exclusive: Epoch::of(100),
                        min_proposer_timestamp_inclusive: None,
                        max_proposer_timestamp_exclusive: None,
                        intent_discriminator: disc * 10 + c as u64,
                    })
                    .manifest_builder(|b| b.yield_to_parent(()));
                let pb = match &ck {
                    Key::S(k) => pb.sign(k),
                    Key::E(k) => pb.sign(k),
                };
                sets.push(btreeset![ck.global_id()]);
                tb = tb.add_signed_child(format!("c{}", c), pb.build_minimal());
            }
            let n = children;
            let mut tb = tb
                .intent_header(IntentHeaderV2 {
                    network_id: network().id,
                    start_epoch_inclusive: Epoch::of(1),
                    end_epoch_exclusive: Epoch::of(100),
                    min_proposer_timestamp_inclusive: None,
                    max_proposer_timestamp_exclusive: None,
                    intent_discriminator: disc,
                })
                .transaction_header(TransactionHeaderV2 { notary_public_key: nk.public(), notary_is_signatory, tip_basis_points: tip as u32 })
                .manifest_builder(|mut b| {
                    b = b.lock_fee_from_faucet();
                    for c in 0..n {
                        b = b.yield_to_child(format!("c{}", c), ());
                    }
                    b
                });
            if with_message {
                tb = tb.message(MessageV2::Plaintext(PlaintextMessageV1 { mime_type: "text/plain".into(), message: MessageContentsV1::String(format!("hello {}", disc)) }));
            }
            for k in &signer_keys {
                tb = match k {
                    Key::S(k) => tb.sign(k),
                    Key::E(k) => tb.sign(k),
                };
            }
            if forged {
                tb = tb.add_signature(forged_sig());
            }
            let tb = match &nk {
                Key::S(k) => tb.notarize(k),
                Key::E(k) => tb.notarize(k),
            };
            let raw = tb.build_minimal_no_validate().to_raw().ok()?;
            Some((raw.as_slice().to_vec(), sets))
        });
        r.ok().flatten()
    }
}

/// Tampering relay on a decoded transaction. Returns (new bytes, which part was changed:
/// 0 = inside the (root) intent, 1 = intent signatures, 2 = notary signature, 3 = inside a subintent).
fn tamper(raw: &[u8], field: u8, arg: u32) -> Option<(Vec<u8>, u8)> {
    let mut tx = UserTransaction::from_raw(&RawNotarizedTransaction::from_vec(raw.to_vec())).ok()?;
    let part;
    match &mut tx {
        UserTransaction::V1(t) => {
            let i = &mut t.signed_intent.intent;
            match field % 12 {
                0 => {
                    i.header.nonce = i.header.nonce.wrapping_add(1 + arg);
                    part = 0
                }
                1 => {
                    i.header.end_epoch_exclusive = Epoch::of(i.header.end_epoch_exclusive.number() + 1 + (arg % 5) as u64);
                    part = 0
                }
                2 => {
                    i.header.tip_percentage = i.header.tip_percentage.wrapping_add(1 + (arg % 7) as u16);
                    part = 0
                }
                3 => {
                    i.header.notary_is_signatory = !i.header.notary_is_signatory;
                    part = 0
                }
                4 => {
                    i.header.start_epoch_inclusive = Epoch::of(i.header.start_epoch_inclusive.number() + 1);
                    part = 0
                }
                5 => {
                    i.message = match &i.message {
                        MessageV1::None => MessageV1::Plaintext(PlaintextMessageV1 { mime_type: "t".into(), message: MessageContentsV1::String(format!("{}", arg)) }),
                        _ => MessageV1::None,
                    };
                    part = 0
                }
                6 => {
                    // a new blob, or (odd arg, blob present) the first blob once more
                    match (arg % 2 == 1, i.blobs.blobs.first().cloned()) {
                        (true, Some(first)) => i.blobs.blobs.push(first),
                        _ => i.blobs.blobs.push(BlobV1(vec![arg as u8])),
                    }
                    part = 0
                }
                7 => {
                    // append one harmless instruction
                    let mut v = i.instructions.0.to_vec();
                    v.push(InstructionV1::DropAllProofs(radix_transactions::manifest::DropAllProofs));
                    i.instructions = InstructionsV1::from(v);
                    part = 0
                }
                8 => {
                    i.header.network_id = i.header.network_id.wrapping_add(1);
                    part = 0
                }
                9 => {
                    let s = &mut t.signed_intent.intent_signatures.signatures;
                    if s.is_empty() {
                        return None;
                    }
                    let ix = arg as usize % s.len();
                    s.remove(ix);
                    part = 1
                }
                10 => {
                    let s = &mut t.signed_intent.intent_signatures.signatures;
                    if s.len() < 2 {
                        return None;
                    }
                    s.swap(0, 1);
                    part = 1
                }
                _ => {
                    t.notary_signature = NotarySignatureV1(match &t.notary_signature.0 {
                        SignatureV1::Secp256k1(s) => {
                            let mut b = s.0;
                            b[(arg as usize) % b.len()] ^= 1;
                            SignatureV1::Secp256k1(Secp256k1Signature(b))
                        }
                        SignatureV1::Ed25519(s) => {
                            let mut b = s.0;
                            b[(arg as usize) % b.len()] ^= 1;
                            SignatureV1::Ed25519(Ed25519Signature(b))
                        }
                    });
                    part = 2
                }
            }
        }
        UserTransaction::V2(t) => {
            let ti = &mut t.signed_transaction_intent.transaction_intent;
            match field % 10 {
                0 => {
                    ti.root_intent_core.header.intent_discriminator = ti.root_intent_core.header.intent_discriminator.wrapping_add(1 + arg as u64);
                    part = 0
                }
                1 => {
                    ti.transaction_header.tip_basis_points = ti.transaction_header.tip_basis_points.wrapping_add(1 + arg % 9);
                    part = 0
                }
                2 => {
                    ti.transaction_header.notary_is_signatory = !ti.transaction_header.notary_is_signatory;
                    part = 0
                }
                3 => {
                    ti.root_intent_core.message = match &ti.root_intent_core.message {
                        MessageV2::None => MessageV2::Plaintext(PlaintextMessageV1 { mime_type: "t".into(), message: MessageContentsV1::String(format!("{}", arg)) }),
                        _ => MessageV2::None,
                    };
                    part = 0
                }
                4 => {
                    match (arg % 2 == 1, ti.root_intent_core.blobs.blobs.first().cloned()) {
                        (true, Some(first)) => ti.root_intent_core.blobs.blobs.push(first),
                        _ => ti.root_intent_core.blobs.blobs.push(BlobV1(vec![arg as u8])),
                    }
                    part = 0
                }
                5 => {
                    ti.root_intent_core.header.end_epoch_exclusive = Epoch::of(ti.root_intent_core.header.end_epoch_exclusive.number() + 1);
                    part = 0
                }
                6 => {
                    // change inside a non-root subintent
                    let subs = &mut ti.non_root_subintents.0;
                    if subs.is_empty() {
                        return None;
                    }
                    let ix = arg as usize % subs.len();
                    subs[ix].intent_core.header.intent_discriminator = subs[ix].intent_core.header.intent_discriminator.wrapping_add(1);
                    part = 3
                }
                7 => {
                    let s = &mut t.signed_transaction_intent.transaction_intent_signatures.signatures;
                    if s.is_empty() {
                        return None;
                    }
                    let ix = arg as usize % s.len();
                    s.remove(ix);
                    part = 1
                }
                8 => {
                    let s = &mut t.signed_transaction_intent.non_root_subintent_signatures.by_subintent;
                    if s.is_empty() || s[0].signatures.is_empty() {
                        return None;
                    }
                    s[0].signatures.clear();
                    part = 1
                }
                _ => {
                    t.notary_signature = NotarySignatureV2(match &t.notary_signature.0 {
                        SignatureV1::Secp256k1(s) => {
                            let mut b = s.0;
                            b[(arg as usize) % b.len()] ^= 1;
                            SignatureV1::Secp256k1(Secp256k1Signature(b))
                        }
                        SignatureV1::Ed25519(s) => {
                            let mut b = s.0;
                            b[(arg as usize) % b.len()] ^= 1;
                            SignatureV1::Ed25519(Ed25519Signature(b))
                        }
                    });
                    part = 2
                }
            }
        }
    }
    let bytes = manifest_encode(&tx).ok()?;
    Some((bytes, part))
}

fn forge_ed25519(raw: &[u8]) -> Option<Vec<u8>> {
    let mut a = UserTransaction::from_raw(&RawNotarizedTransaction::from_vec(raw.to_vec())).ok()?;
    let mut pk = [0u8; 32];
    pk[0] = 1;
    let mut sig = [0u8; 64];
    sig[0] = 1;
    let forged = SignatureWithPublicKeyV1::Ed25519 { public_key: Ed25519PublicKey(pk), signature: Ed25519Signature(sig) };
    match &mut a {
        UserTransaction::V1(x) => x.signed_intent.intent_signatures.signatures.push(IntentSignatureV1(forged)),
        UserTransaction::V2(x) => x.signed_transaction_intent.transaction_intent_signatures.signatures.push(IntentSignatureV1(forged)),
    }
    manifest_encode(&a).ok()
}

fn swap_sigs(raw: &[u8], other: &[u8], notary: bool, duplicate: bool) -> Option<Vec<u8>> {
    let mut a = UserTransaction::from_raw(&RawNotarizedTransaction::from_vec(raw.to_vec())).ok()?;
    let b = UserTransaction::from_raw(&RawNotarizedTransaction::from_vec(other.to_vec())).ok()?;
    match (&mut a, &b) {
        (UserTransaction::V1(x), UserTransaction::V1(y)) => {
            if duplicate {
                let s = &mut x.signed_intent.intent_signatures.signatures;
                if s.is_empty() {
                    return None;
                }
                let f = s[0].clone();
                s.push(f);
            } else if notary {
                x.notary_signature = y.notary_signature.clone();
            } else {
                x.signed_intent.intent_signatures = y.signed_intent.intent_signatures.clone();
            }
        }
        (UserTransaction::V2(x), UserTransaction::V2(y)) => {
            if duplicate {
                let s = &mut x.signed_transaction_intent.transaction_intent_signatures.signatures;
                if s.is_empty() {
                    return None;
                }
                let f = s[0].clone();
                s.push(f);
            } else if notary {
                x.notary_signature = y.notary_signature.clone();
            } else {
                x.signed_transaction_intent.transaction_intent_signatures = y.signed_transaction_intent.transaction_intent_signatures.clone();
            }
        }
        _ => return None,
    }
    manifest_encode(&a).ok()
}

impl World for Transport {
    type Step = Step;
    type Cfg = Cfg;
    fn property(&self) -> &'static str {
        self.id
    }
    fn world(&self) -> &'static str {
        "ledger (transport)"
    }
    fn rule(&self) -> String {
        let common = "Per run: clients build valid notarized V1 and V2 transactions (0-4 intent signers over secp256k1 and ed25519 keys, notary signatory or not, messages, blobs, V2 with signed subintent children); the simulated transport delivers them clean, duplicated, or corrupted: blind (1-3 bit flips, byte substitution, truncation, trailing bytes, splices between two payloads), tampering relay (decode, change exactly one field - header fields, message, blob, instruction, a subintent field, remove/reorder a signature, flip a notary signature bit - re-encode without re-signing) and adversarial signature moves (intent signatures or notary signature of another transaction, duplicated signer); the node prepares and validates what arrives with the real TransactionValidator. ";
        let specific = if self.id == "C32" {
            "C32: across the run the maps intent hash -> intent content, signed-intent hash and notarized hash -> payload bytes built from every successfully prepared payload must be functions; re-encoding a decoded, prepared payload reproduces the arrived bytes (non-canonical / trailing bytes cannot have been accepted); a tampering-relay change inside a hashed part changes that part's hash and every enclosing hash and leaves the hashes of untouched inner parts alone. One field per delivery is perturbed (sampled over the field list, not enumerated)."
        } else {
            "C33: the simulator knows exactly which key signed which intent: every accepted payload's signer badge set per intent (the initial proofs handed to execution) equals the keys that signed that intent (+ the notary iff declared signatory); a corrupted payload is rejected, or accepted with intent hash and signer sets equal to the original's."
        };
        format!("{}{} evaluations = payloads prepared/validated; distinct = distinct (corruption kind, prepared?, accepted?, original shape) tuples + distinct payload digests.", common, specific)
    }
    fn assumptions(&self) -> Vec<String> {
        vec![
            "Only the part of the property a transport fault reaches is claimed: integrity of signed payloads under corruption in transit; partial-transaction and ledger-transaction payloads are not generated.".into(),
            "Nothing is executed: the property is about preparation and validation.".into(),
        ]
    }
    fn real_vs_stub(&self) -> serde_json::Value {
        json!({"real": ["TransactionV1Builder / TransactionV2Builder / PartialTransactionV2Builder (signing)", "payload preparation and hashing", "TransactionValidator (signature validation)"], "stub_or_ours": ["clients and keys", "transport (corruption, tampering relay)", "provenance bookkeeping"]})
    }
    fn probes(&self) -> Vec<&'static str> {
        vec!["deliver.clean_accepted", "deliver.corrupted_rejected_at_prepare", "deliver.corrupted_rejected_at_validate", "deliver.corrupted_accepted_unchanged_content", "tamper.intent_field", "tamper.subintent_field", "tamper.intent_signatures", "tamper.notary_signature", "fault.bit_flip", "fault.truncate", "fault.extend", "fault.splice", "fault.signature_swap", "fault.duplicate_signer"]
    }
    fn budget(&self, tier: Tier) -> (u64, u64) {
        match tier {
            Tier::Quick => (12000, 40),
            Tier::Thorough => (60_000, 900),
        }
    }
    fn gen_cfg(&self, rng: &mut Rng, _tier: Tier, _run: u64) -> Cfg {
        Cfg { n_steps: rng.range(20, 80) as usize, corrupt_permille: *rng.pick(&[600u32, 800, 950]) }
    }

    fn run(&self, cfg: &Cfg, mode: Mode<Step>) -> RunOutcome<Step> {
        let mut steps = Steps::new(mode);
        let mut stats = Stats::default();
        let node = Node::from_base();
        let settings = node.validator.preparation_settings().clone();
        let mut originals: Vec<Original> = vec![];
        // history-level maps (C32)
        let mut by_intent: BTreeMap<Vec<u8>, Vec<u8>> = BTreeMap::new();
        let mut by_signed: BTreeMap<Vec<u8>, Vec<u8>> = BTreeMap::new();
        let mut by_notarized: BTreeMap<Vec<u8>, Vec<u8>> = BTreeMap::new();
        let mut digest = 0u64;
        let mut violation = None;
        let mut n = 0usize;
        loop {
            let step = steps.next(|rng| {
                if n >= cfg.n_steps {
                    return None;
                }
                if originals.len() < 2 || rng.chance(1, 5) {
                    let ns = rng.range(0, 4) as usize;
                    let malicious_client = rng.chance(1, 10);
                    return Some(Step::NewTx {
                        v2: rng.chance(1, 2),
                        signers: (0..ns).map(|_| rng.below(8) as u8).chain(if malicious_client { Some(255u8) } else { None }).collect(),
                        notary: rng.range(10, 13) as u8,
                        notary_is_signatory: rng.chance(1, 2),
                        with_message: rng.chance(1, 2),
                        with_blob: rng.chance(1, 3),
                        children: rng.range(0, 2) as u8,
                        tip: *rng.pick(&[0u16, 1, 50, 65535]),
                    });
                }
                let tx = rng.below(originals.len() as u64) as u8;
                let len = originals[tx as usize].raw.len() as u32;
                let corrupt = if rng.below(1000) >= cfg.corrupt_permille as u64 {
                    Corrupt::None
                } else {
                    match rng.below(20) {
                        0..=3 => Corrupt::BitFlips { positions: (0..rng.range(1, 3)).map(|_| rng.below(len as u64 * 8) as u32).collect() },
                        4 => Corrupt::SetByte { pos: rng.below(len as u64) as u32, val: rng.next_u64() as u8 },
                        5 => Corrupt::Truncate { len: rng.below(len as u64) as u32 },
                        6 => {
                            let k = rng.range(1, 4) as usize;
                            Corrupt::Extend { bytes: Hex(rng.bytes(k)) }
                        }
                        7 => Corrupt::Splice { other: rng.below(originals.len() as u64) as u8, cut: rng.below(len as u64) as u32 },
                        8..=14 => Corrupt::Tamper { field: rng.below(12) as u8, arg: rng.below(1000) as u32 },
                        15..=16 => Corrupt::SwapIntentSignatures { other: rng.below(originals.len() as u64) as u8 },
                        17 => Corrupt::SwapNotarySignature { other: rng.below(originals.len() as u64) as u8 },
                        18 => Corrupt::ForgeEd25519,
                        _ => Corrupt::DuplicateSigner,
                    }
                };
                Some(Step::Deliver { tx, corrupt })
            });
            n += 1;
            let Some(step) = step else { break };
            let ix = steps.index();
            let mk = |monitor: &str, detail: String| Violation { monitor: monitor.into(), step: ix, detail, signature: monitor.into() };
            let pfx = self.id.to_lowercase();
            match step {
                Step::NewTx { v2, signers, notary, notary_is_signatory, with_message, with_blob, children, tip } => {
                    let disc = originals.len() as u64 + 1;
                    let Some((raw, signer_sets)) = build_tx(v2, &signers, notary, notary_is_signatory, with_message, with_blob, if v2 { children } else { 0 }, tip, disc) else { continue };
                    let prepared = RawNotarizedTransaction::from_vec(raw.clone()).prepare(&settings);
                    let Ok(p) = prepared else {
                        stats.bump("newtx.unpreparable");
                        continue;
                    };
                    let malicious = signers.contains(&255);
                    if malicious {
                        stats.bump("client.forged_small_order_signature");
                    }
                    originals.push(Original { raw, hashes: p.hashes(), signers: signer_sets, malicious });
                }
                Step::Deliver { tx, corrupt } => {
                    let Some(orig) = originals.get(tx as usize) else { continue };
                    let mut expect_part: Option<u8> = None;
                    let mut provenance: Vec<usize> = vec![tx as usize];
                    let bytes: Vec<u8> = match &corrupt {
                        Corrupt::None => orig.raw.clone(),
                        Corrupt::BitFlips { positions } => {
                            let mut b = orig.raw.clone();
                            for p in positions {
                                let i = (*p / 8) as usize % b.len();
                                b[i] ^= 1 << (p % 8);
                            }
                            stats.bump("fault.bit_flip");
                            b
                        }
                        Corrupt::SetByte { pos, val } => {
                            let mut b = orig.raw.clone();
                            let i = *pos as usize % b.len();
                            b[i] = *val;
                            stats.bump("fault.bit_flip");
                            b
                        }
                        Corrupt::Truncate { len } => {
                            stats.bump("fault.truncate");
                            orig.raw[..(*len as usize).min(orig.raw.len())].to_vec()
                        }
                        Corrupt::Extend { bytes } => {
                            stats.bump("fault.extend");
                            let mut b = orig.raw.clone();
                            b.extend_from_slice(&bytes.0);
                            b
                        }
                        Corrupt::Splice { other, cut } => {
                            let Some(o) = originals.get(*other as usize) else { continue };
                            stats.bump("fault.splice");
                            provenance.push(*other as usize);
                            let c = (*cut as usize).min(orig.raw.len());
                            let mut b = orig.raw[..c].to_vec();
                            if c < o.raw.len() {
                                b.extend_from_slice(&o.raw[c..]);
                            }
                            b
                        }
                        Corrupt::Tamper { field, arg } => match tamper(&orig.raw, *field, *arg) {
                            Some((b, part)) => {
                                expect_part = Some(part);
                                stats.bump(match part {
                                    0 => "tamper.intent_field",
                                    1 => "tamper.intent_signatures",
                                    2 => "tamper.notary_signature",
                                    _ => "tamper.subintent_field",
                                });
                                b
                            }
                            None => continue,
                        },
                        Corrupt::SwapIntentSignatures { other } | Corrupt::SwapNotarySignature { other } => {
                            let Some(o) = originals.get(*other as usize) else { continue };
                            if *other == tx {
                                continue;
                            }
                            stats.bump("fault.signature_swap");
                            match swap_sigs(&orig.raw, &o.raw, matches!(corrupt, Corrupt::SwapNotarySignature { .. }), false) {
                                Some(b) => b,
                                None => continue,
                            }
                        }
                        Corrupt::DuplicateSigner => {
                            stats.bump("fault.duplicate_signer");
                            match swap_sigs(&orig.raw, &orig.raw, false, true) {
                                Some(b) => b,
                                None => continue,
                            }
                        }
                        Corrupt::ForgeEd25519 => {
                            stats.bump("fault.forged_small_order_signature");
                            match forge_ed25519(&orig.raw) {
                                Some(b) => b,
                                None => continue,
                            }
                        }
                    };
                    let corrupted = bytes != orig.raw;
                    let raw = RawNotarizedTransaction::from_vec(bytes.clone());
                    stats.evaluations += 1;
                    let prepared = catch_quiet(|| raw.prepare(&settings));
                    let prepared = match prepared {
                        Err(p) => {
                            violation = Some(mk(&format!("{}.prepare_panicked", pfx), format!("{:?}: {}", corrupt, p)));
                            break;
                        }
                        Ok(p) => p,
                    };
                    let kind_code = match &corrupt {
                        Corrupt::None => 0u64,
                        Corrupt::BitFlips { .. } | Corrupt::SetByte { .. } => 1,
                        Corrupt::Truncate { .. } => 2,
                        Corrupt::Extend { .. } => 3,
                        Corrupt::Splice { .. } => 4,
                        Corrupt::Tamper { field, .. } => 10 + *field as u64,
                        Corrupt::SwapIntentSignatures { .. } => 30,
                        Corrupt::SwapNotarySignature { .. } => 31,
                        Corrupt::DuplicateSigner => 32,
                        Corrupt::ForgeEd25519 => 33,
                    };
                    let Ok(p) = prepared else {
                        if !corrupted {
                            violation = Some(mk(&format!("{}.clean_payload_not_preparable", pfx), format!("tx {}", tx)));
                            break;
                        }
                        stats.bump("deliver.corrupted_rejected_at_prepare");
                        stats.distinct.insert(prng::mix(kind_code, 0));
                        continue;
                    };
                    let h = p.hashes();
                    stats.distinct.insert(prng::fnv64(&bytes));
                    // ---- C32
                    if self.id == "C32" {
                        // canonical form: re-encoding what was decoded gives the arrived bytes
                        match UserTransaction::from_raw(&raw) {
                            Ok(t) => {
                                let re = manifest_encode(&t).unwrap_or_default();
                                if re != bytes {
                                    violation = Some(mk("c32.non_canonical_payload_prepared", format!("a payload of {} bytes was prepared but re-encodes to {} different bytes ({:?})", bytes.len(), re.len(), corrupt)));
                                    break;
                                }
                            }
                            Err(e) => {
                                violation = Some(mk("c32.prepared_but_not_decodable", format!("{:?}: {:?}", corrupt, e)));
                                break;
                            }
                        }
                        let hi = scrypto_encode(&h.transaction_intent_hash).unwrap();
                        let hs = scrypto_encode(&h.signed_transaction_intent_hash).unwrap();
                        let hn = scrypto_encode(&h.notarized_transaction_hash).unwrap();
                        // notarized hash -> whole payload ; intent hash -> the intent part is not separately
                        // extractable without re-encoding: use (notarized, signed) maps on payload bytes and the
                        // tamper expectations below for the inner parts
                        if let Some(prev) = by_notarized.insert(hn.clone(), bytes.clone()) {
                            if prev != bytes {
                                violation = Some(mk("c32.same_notarized_hash_different_payload", format!("two different payloads share the notarized hash {:?}", h.notarized_transaction_hash)));
                                break;
                            }
                        }
                        let signed_part = |b: &Vec<u8>| -> Vec<u8> {
                            UserTransaction::from_raw(&RawNotarizedTransaction::from_vec(b.clone()))
                                .ok()
                                .map(|t| match t {
                                    UserTransaction::V1(t) => manifest_encode(&t.signed_intent).unwrap_or_default(),
                                    UserTransaction::V2(t) => manifest_encode(&t.signed_transaction_intent).unwrap_or_default(),
                                })
                                .unwrap_or_default()
                        };
                        let intent_part = |b: &Vec<u8>| -> Vec<u8> {
                            UserTransaction::from_raw(&RawNotarizedTransaction::from_vec(b.clone()))
                                .ok()
                                .map(|t| match t {
                                    UserTransaction::V1(t) => manifest_encode(&t.signed_intent.intent).unwrap_or_default(),
                                    UserTransaction::V2(t) => manifest_encode(&t.signed_transaction_intent.transaction_intent).unwrap_or_default(),
                                })
                                .unwrap_or_default()
                        };
                        let sp = signed_part(&bytes);
                        if let Some(prev) = by_signed.insert(hs.clone(), sp.clone()) {
                            if prev != sp {
                                violation = Some(mk("c32.same_signed_intent_hash_different_content", format!("two different signed intents share the hash {:?} ({:?})", h.signed_transaction_intent_hash, corrupt)));
                                break;
                            }
                        }
                        let ip = intent_part(&bytes);
                        if let Some(prev) = by_intent.insert(hi.clone(), ip.clone()) {
                            if prev != ip {
                                violation = Some(mk("c32.same_intent_hash_different_content", format!("two different intents share the hash {:?} ({:?})", h.transaction_intent_hash, corrupt)));
                                break;
                            }
                        }
                        if let Some(part) = expect_part {
                            let o = &orig.hashes;
                            let same_i = o.transaction_intent_hash == h.transaction_intent_hash;
                            let same_s = o.signed_transaction_intent_hash == h.signed_transaction_intent_hash;
                            let same_n = o.notarized_transaction_hash == h.notarized_transaction_hash;
                            let bad = match part {
                                0 | 3 => same_i || same_s || same_n,
                                1 => !same_i || same_s || same_n,
                                _ => !same_i || !same_s || same_n,
                            };
                            if bad {
                                violation = Some(mk(
                                    "c32.tampered_field_not_covered_by_hash",
                                    format!("{:?} (changed part {}): intent hash same={}, signed-intent hash same={}, notarized hash same={}", corrupt, part, same_i, same_s, same_n),
                                ));
                                break;
                            }
                            if part == 3 && o.non_root_subintent_hashes == h.non_root_subintent_hashes {
                                violation = Some(mk("c32.tampered_field_not_covered_by_hash", format!("{:?}: a subintent field changed but no subintent hash did", corrupt)));
                                break;
                            }
                        }
                    }
                    // ---- validation
                    let validated = catch_quiet(|| raw.validate(&node.validator));
                    let validated = match validated {
                        Err(pn) => {
                            violation = Some(mk(&format!("{}.validate_panicked", pfx), format!("{:?}: {}", corrupt, pn)));
                            break;
                        }
                        Ok(v) => v,
                    };
                    match validated {
                        Err(e) => {
                            if !corrupted && !orig.malicious {
                                violation = Some(mk(&format!("{}.clean_payload_rejected", pfx), format!("tx {}: {:?}", tx, e)));
                                break;
                            }
                            if orig.malicious {
                                stats.bump("deliver.forged_client_signature_rejected");
                            }
                            stats.bump("deliver.corrupted_rejected_at_validate");
                            stats.distinct.insert(prng::mix(kind_code, 1));
                        }
                        Ok(v) => {
                            let exe = v.create_executable();
                            let got: Vec<BTreeSet<NonFungibleGlobalId>> = exe.all_intents().map(|i| i.auth_zone_init.initial_non_fungible_id_proofs.clone()).collect();
                            stats.distinct.insert(prng::mix(kind_code, 2));
                            if self.id == "C33" {
                                // which original could this be?
                                let matching = provenance.iter().find(|ix| originals[**ix].hashes.transaction_intent_hash == h.transaction_intent_hash && originals[**ix].signers == got);
                                if matching.is_none() {
                                    let o = &originals[tx as usize];
                                    violation = Some(mk(
                                        "c33.accepted_with_other_content_or_signers",
                                        format!(
                                            "payload delivered with {:?} passes validation; intent hash equals the original's: {}; signer badge sets {:?} vs the keys that actually signed {:?}",
                                            corrupt,
                                            o.hashes.transaction_intent_hash == h.transaction_intent_hash,
                                            got.iter().map(|s| s.len()).collect::<Vec<_>>(),
                                            o.signers.iter().map(|s| s.len()).collect::<Vec<_>>()
                                        ),
                                    ));
                                    break;
                                }
                            }
                            stats.bump(if corrupted { "deliver.corrupted_accepted_unchanged_content" } else { "deliver.clean_accepted" });
                        }
                    }
                    digest = prng::mix(digest, prng::fnv64(&bytes));
                }
            }
        }
        RunOutcome { steps: steps.taken, violation, stats, digest }
    }
}
